package rules

import (
	"fmt"
	"go/ast"
	"go/constant"
	"go/token"
	"go/types"
	"sort"
	"strings"

	"golang.org/x/tools/go/packages"
	"golang.org/x/tools/go/ssa"

	"qicheck/internal/core"
)

// Instance-level agreement between the signature strings stated in the code
// that was generated and checked into the repository (and in the hand-written
// code of the same form) and what that code does with the bytes:
//
//   - stated-types: bus.NewParams(sig, args…) / bus.NewResponse(sig, &ret) — the
//     static Go types of the arguments are the types the signature describes
//     (the reflection codec walks the Go value, the peer reads by signature);
//   - stated-shapes: the meta-object a stub advertises gives, per action, a
//     ParametersSignature and a ReturnSignature; the stub method the action is
//     dispatched to decodes exactly that from the payload and encodes exactly
//     that into its answer.
//
// The letter → Go type / primitive table is not written here: it is read from
// the constructors of meta/signature (ctorTable), the rows C03.constructors
// cross-checks with the documentation.

type sigNode struct {
	Kind   string // scalar | list | map | tuple
	Letter byte
	Kids   []*sigNode
	Name   string // struct name ("" for a plain tuple)
	Fields []string
	Text   string
}

type sigParser struct {
	s       string
	i       int
	letters map[byte]bool
}

func (p *sigParser) typ() (*sigNode, error) {
	if p.i >= len(p.s) {
		return nil, fmt.Errorf("signature ends early")
	}
	start := p.i
	ch := p.s[p.i]
	switch ch {
	case '[':
		p.i++
		e, err := p.typ()
		if err != nil {
			return nil, err
		}
		if p.i >= len(p.s) || p.s[p.i] != ']' {
			return nil, fmt.Errorf("missing ] at %d", p.i)
		}
		p.i++
		return &sigNode{Kind: "list", Kids: []*sigNode{e}, Text: p.s[start:p.i]}, nil
	case '{':
		p.i++
		k, err := p.typ()
		if err != nil {
			return nil, err
		}
		v, err := p.typ()
		if err != nil {
			return nil, err
		}
		if p.i >= len(p.s) || p.s[p.i] != '}' {
			return nil, fmt.Errorf("missing } at %d", p.i)
		}
		p.i++
		return &sigNode{Kind: "map", Kids: []*sigNode{k, v}, Text: p.s[start:p.i]}, nil
	case '(':
		p.i++
		n := &sigNode{Kind: "tuple"}
		for {
			if p.i >= len(p.s) {
				return nil, fmt.Errorf("missing )")
			}
			if p.s[p.i] == ')' {
				p.i++
				break
			}
			k, err := p.typ()
			if err != nil {
				return nil, err
			}
			n.Kids = append(n.Kids, k)
		}
		if p.i < len(p.s) && p.s[p.i] == '<' {
			depth, j := 0, p.i
			for ; j < len(p.s); j++ {
				if p.s[j] == '<' {
					depth++
				}
				if p.s[j] == '>' {
					depth--
					if depth == 0 {
						break
					}
				}
			}
			if j >= len(p.s) {
				return nil, fmt.Errorf("missing >")
			}
			parts := splitTop(p.s[p.i+1 : j])
			p.i = j + 1
			if len(parts) > 0 {
				n.Name = parts[0]
				n.Fields = parts[1:]
			}
		}
		n.Text = p.s[start:p.i]
		return n, nil
	}
	if !p.letters[ch] {
		return nil, fmt.Errorf("letter %q is not a signature letter of meta/signature", ch)
	}
	p.i++
	return &sigNode{Kind: "scalar", Letter: ch, Text: string(ch)}, nil
}

// splitTop splits at commas that are not inside <…>.
func splitTop(s string) []string {
	var out []string
	depth, last := 0, 0
	for i := 0; i < len(s); i++ {
		switch s[i] {
		case '<':
			depth++
		case '>':
			depth--
		case ',':
			if depth == 0 {
				out = append(out, s[last:i])
				last = i + 1
			}
		}
	}
	return append(out, s[last:])
}

// sigTable: what the constructors of meta/signature say about each letter.
type sigTable struct {
	goType map[byte]string // "uint32", …
	prim   map[byte]string // "Uint32", … ("Value" for m)
	known  map[byte]bool
}

func newSigTable(c *core.Ctx) *sigTable {
	t := &sigTable{goType: map[byte]string{}, prim: map[byte]string{}, known: map[byte]bool{}}
	for _, r := range ctorTable(c) {
		if len(r.Signature) != 1 {
			continue
		}
		l := r.Signature[0]
		t.known[l] = true
		if r.GoType != "" {
			t.goType[l] = r.GoType
		}
		w, rd := strings.TrimPrefix(r.Marshal, "Write"), strings.TrimPrefix(r.Unmarshal, "Read")
		if w != "" && w == rd {
			t.prim[l] = w
		}
		if r.Unmarshal == "NewValue" {
			t.prim[l] = "Value"
		}
	}
	return t
}

func (t *sigTable) parse(s string) (*sigNode, error) {
	p := &sigParser{s: s, letters: t.known}
	n, err := p.typ()
	if err != nil {
		return nil, err
	}
	if p.i != len(s) {
		return nil, fmt.Errorf("trailing text %q", s[p.i:])
	}
	return n, nil
}

func normName(s string) string {
	var b strings.Builder
	for _, r := range strings.ToLower(s) {
		if (r >= 'a' && r <= 'z') || (r >= '0' && r <= '9') {
			b.WriteRune(r)
		}
	}
	return b.String()
}

// ------------------------------------------------------------------ types

// typeMatches: the reflection codec, walking a Go value of type T, produces
// the serialization of signature n.  Returns "" or the first difference.
func (t *sigTable) typeMatches(n *sigNode, T types.Type, depth int) string {
	if depth > 12 {
		return ""
	}
	switch n.Kind {
	case "scalar":
		switch n.Letter {
		case 'm':
			if core.TypeIs(T, "type/value", "Value") {
				return ""
			}
			return fmt.Sprintf("'m' (dynamic value) stated for a %s", T)
		case 'o':
			if core.TypeIs(T, "type/object", "ObjectReference") {
				return ""
			}
			return fmt.Sprintf("'o' (object reference) stated for a %s", T)
		case 'v':
			if st, ok := T.Underlying().(*types.Struct); ok && st.NumFields() == 0 {
				return ""
			}
			return fmt.Sprintf("'v' (nothing) stated for a %s", T)
		}
		want, ok := t.goType[n.Letter]
		if !ok {
			return fmt.Sprintf("no Go type known for letter %q", n.Letter)
		}
		if b, ok := T.Underlying().(*types.Basic); ok && b.Name() == want {
			return ""
		}
		return fmt.Sprintf("%q is a %s on the wire, the Go value is a %s", n.Letter, want, T)
	case "list":
		sl, ok := T.Underlying().(*types.Slice)
		if !ok {
			return fmt.Sprintf("%s (a list) stated for a %s", n.Text, T)
		}
		return t.typeMatches(n.Kids[0], sl.Elem(), depth+1)
	case "map":
		m, ok := T.Underlying().(*types.Map)
		if !ok {
			return fmt.Sprintf("%s (a map) stated for a %s", n.Text, T)
		}
		if d := t.typeMatches(n.Kids[0], m.Key(), depth+1); d != "" {
			return "key: " + d
		}
		return t.typeMatches(n.Kids[1], m.Elem(), depth+1)
	case "tuple":
		st, ok := T.Underlying().(*types.Struct)
		if !ok {
			return fmt.Sprintf("%s (a structure) stated for a %s", abbrev(n.Text), T)
		}
		if st.NumFields() != len(n.Kids) {
			return fmt.Sprintf("%s has %d members, %s has %d fields", abbrev(n.Text), len(n.Kids), T, st.NumFields())
		}
		for i, k := range n.Kids {
			if d := t.typeMatches(k, st.Field(i).Type(), depth+1); d != "" {
				return fmt.Sprintf("member %d (%s): %s", i, st.Field(i).Name(), d)
			}
			if i < len(n.Fields) && normName(n.Fields[i]) != normName(st.Field(i).Name()) {
				return fmt.Sprintf("member %d is called %q in the signature and %s in %s (conversion matches members by name)", i, n.Fields[i], st.Field(i).Name(), T)
			}
		}
		return ""
	}
	return "unknown signature node"
}

// ------------------------------------------------------------------ shapes

// shapeMatches consumes, from toks[i:], the tokens the signature n describes.
// dir is "read" or "write".  Returns the next index and "" or a difference.
func (t *sigTable) shapeMatches(c *core.Ctx, n *sigNode, toks []tok, i int, dir string, seen map[string]bool) (int, string) {
	at := func() string {
		if i < len(toks) {
			return toks[i].String()
		}
		return "nothing"
	}
	switch n.Kind {
	case "scalar":
		switch n.Letter {
		case 'v':
			return i, ""
		case 'o':
			if i < len(toks) && toks[i].Kind == "sub" && strings.HasSuffix(toks[i].Name, "ObjectReference") {
				return i + 1, ""
			}
			return i, fmt.Sprintf("'o': an object reference expected, found %s", at())
		}
		want, ok := t.prim[n.Letter]
		if !ok {
			return i, fmt.Sprintf("no primitive known for letter %q", n.Letter)
		}
		if i < len(toks) && toks[i].Kind == "prim" && toks[i].Name == want {
			return i + 1, ""
		}
		return i, fmt.Sprintf("%q: %s expected, found %s", n.Letter, want, at())
	case "list", "map":
		if i+1 >= len(toks) || toks[i].Kind != "prim" || toks[i].Name != "Uint32" || toks[i+1].Kind != "rep" {
			return i, fmt.Sprintf("%s: a 32-bit count and a loop expected, found %s", abbrev(n.Text), at())
		}
		if !toks[i+1].CountPrev {
			return i, fmt.Sprintf("%s: the loop is not bounded by the count in front of it", abbrev(n.Text))
		}
		kids := flatten(toks[i+1].Kids)
		j := 0
		for _, k := range n.Kids {
			var d string
			j, d = t.shapeMatches(c, k, kids, j, dir, seen)
			if d != "" {
				return i, abbrev(n.Text) + " element: " + d
			}
		}
		if j != len(kids) {
			return i, fmt.Sprintf("%s: one iteration also moves %s", abbrev(n.Text), kids[j].String())
		}
		return i + 2, ""
	case "tuple":
		if n.Name != "" && i < len(toks) && toks[i].Kind == "sub" && toks[i].Fn != nil {
			// a named structure handled by its own function: the function's name and body
			sub := toks[i]
			base := subBase(sub.Name)
			if k := strings.LastIndex(base, "."); k >= 0 {
				base = base[k+1:]
			}
			if normName(base) != normName(n.Name) {
				return i, fmt.Sprintf("structure %s handled by %s", n.Name, sub.Name)
			}
			key := sub.Name + "|" + n.Text
			if !seen[key] {
				seen[key] = true
				method := "Read"
				if dir == "write" {
					method = "Write"
				}
				sp := streamParam(sub.Fn, method)
				if sp == nil {
					return i, fmt.Sprintf("%s: no stream parameter", sub.Name)
				}
				inner, prob := shapeOf(c, sub.Fn, sp)
				if prob != "" {
					return i, sub.Name + ": " + prob
				}
				inner = flatten(inner)
				if len(inner) == 1 && inner[0].Kind == "sub" && inner[0].Fn != nil && inner[0].Fn != sub.Fn {
					// an exported wrapper of the function that does the work (WriteX calls writeX)
					if _, d := t.shapeMatches(c, n, inner, 0, dir, seen); d != "" {
						return i, d
					}
					return i + 1, ""
				}
				j := 0
				for mi, k := range n.Kids {
					var d string
					before := j
					j, d = t.shapeMatches(c, k, inner, j, dir, seen)
					if d != "" {
						return i, fmt.Sprintf("%s member %d: %s", sub.Name, mi, d)
					}
					if mi < len(n.Fields) && before < len(inner) && j > before && inner[before].Field != "" &&
						normName(inner[before].Field) != normName(n.Fields[mi]) {
						return i, fmt.Sprintf("%s: member %d is %q in the signature, the function moves field %s there", sub.Name, mi, n.Fields[mi], inner[before].Field)
					}
				}
				if j != len(inner) {
					return i, fmt.Sprintf("%s also moves %s, which the signature does not mention", sub.Name, inner[j].String())
				}
			}
			return i + 1, ""
		}
		for _, k := range n.Kids {
			var d string
			i, d = t.shapeMatches(c, k, toks, i, dir, seen)
			if d != "" {
				return i, d
			}
		}
		return i, ""
	}
	return i, "unknown signature node"
}

// ------------------------------------------------------------------ sites

type metaEntry struct {
	ID       int64
	Kind     string // method | signal | property
	Name     string
	Params   string
	Return   string
	Sig      string
	Pos      token.Pos
	HasParam bool
	UID      int64 // the Uid field of the entry (-1 if not a constant)
}

// metaTables: per receiver type, the entries of the MetaObject literal its
// metaObject() method returns.
func metaTables(c *core.Ctx) map[*types.Named][]metaEntry {
	out := map[*types.Named][]metaEntry{}
	for _, p := range c.Pkgs {
		for _, f := range p.Syntax {
			if strings.HasSuffix(p.Fset.Position(f.Pos()).Filename, "_test.go") || c.InWitness(f.Pos()) {
				continue
			}
			for _, d := range f.Decls {
				fd, ok := d.(*ast.FuncDecl)
				if !ok || fd.Body == nil || fd.Recv == nil || len(fd.Recv.List) != 1 {
					continue
				}
				rt := p.TypesInfo.TypeOf(fd.Recv.List[0].Type)
				if ptr, ok := rt.(*types.Pointer); ok {
					rt = ptr.Elem()
				}
				named, _ := rt.(*types.Named)
				if named == nil {
					continue
				}
				ast.Inspect(fd.Body, func(n ast.Node) bool {
					cl, ok := n.(*ast.CompositeLit)
					if !ok {
						return true
					}
					if !core.TypeIs(p.TypesInfo.TypeOf(cl), "type/object", "MetaObject") {
						return true
					}
					out[named] = append(out[named], readMetaLiteral(p, cl)...)
					return false
				})
			}
		}
	}
	return out
}

func readMetaLiteral(p *packages.Package, cl *ast.CompositeLit) []metaEntry {
	var out []metaEntry
	str := func(e ast.Expr) (string, bool) {
		if tv, ok := p.TypesInfo.Types[e]; ok && tv.Value != nil && tv.Value.Kind() == constant.String {
			return constant.StringVal(tv.Value), true
		}
		return "", false
	}
	for _, el := range cl.Elts {
		kv, ok := el.(*ast.KeyValueExpr)
		if !ok {
			continue
		}
		k, _ := kv.Key.(*ast.Ident)
		tbl, _ := kv.Value.(*ast.CompositeLit)
		if k == nil || tbl == nil {
			continue
		}
		kind := map[string]string{"Methods": "method", "Signals": "signal", "Properties": "property"}[k.Name]
		if kind == "" {
			continue
		}
		for _, row := range tbl.Elts {
			rkv, ok := row.(*ast.KeyValueExpr)
			if !ok {
				continue
			}
			e := metaEntry{Kind: kind, Pos: rkv.Pos(), ID: -1, UID: -1}
			if tv, ok := p.TypesInfo.Types[rkv.Key]; ok && tv.Value != nil {
				if v, ok := constant.Int64Val(constant.ToInt(tv.Value)); ok {
					e.ID = v
				}
			}
			rcl, _ := rkv.Value.(*ast.CompositeLit)
			if rcl == nil {
				continue
			}
			for _, fe := range rcl.Elts {
				fkv, ok := fe.(*ast.KeyValueExpr)
				if !ok {
					continue
				}
				fk, _ := fkv.Key.(*ast.Ident)
				if fk == nil {
					continue
				}
				s, isStr := str(fkv.Value)
				if fk.Name == "Uid" {
					if tv, ok := p.TypesInfo.Types[fkv.Value]; ok && tv.Value != nil {
						if v, ok := constant.Int64Val(constant.ToInt(tv.Value)); ok {
							e.UID = v
						}
					}
				}
				switch fk.Name {
				case "Name":
					e.Name = s
				case "ParametersSignature":
					e.Params, e.HasParam = s, isStr
				case "ReturnSignature":
					e.Return = s
				case "Signature":
					e.Sig = s
				}
			}
			out = append(out, e)
		}
	}
	return out
}

// dispatchTable: in the Receive method of recv (or a method it hands the
// message to), `case <id>: return p.M(msg, from)`.
func actionDispatch(c *core.Ctx, named *types.Named) map[int64]*ssa.Function {
	out := map[int64]*ssa.Function{}
	for _, p := range c.Pkgs {
		if p.Types != named.Obj().Pkg() {
			continue
		}
		for _, f := range p.Syntax {
			for _, d := range f.Decls {
				fd, ok := d.(*ast.FuncDecl)
				if !ok || fd.Body == nil || fd.Recv == nil || len(fd.Recv.List) != 1 {
					continue
				}
				rt := p.TypesInfo.TypeOf(fd.Recv.List[0].Type)
				if ptr, ok := rt.(*types.Pointer); ok {
					rt = ptr.Elem()
				}
				if rt != types.Type(named) {
					continue
				}
				ast.Inspect(fd.Body, func(n ast.Node) bool {
					sw, ok := n.(*ast.SwitchStmt)
					if !ok || sw.Tag == nil {
						return true
					}
					// the tag reads the action of the message
					if !strings.HasSuffix(types.ExprString(sw.Tag), "Action") {
						return true
					}
					for _, st := range sw.Body.List {
						cc, ok := st.(*ast.CaseClause)
						if !ok {
							continue
						}
						var target *types.Func
						ast.Inspect(cc, func(m ast.Node) bool {
							call, ok := m.(*ast.CallExpr)
							if !ok {
								return true
							}
							if sel, ok := call.Fun.(*ast.SelectorExpr); ok {
								if fn, ok := p.TypesInfo.Uses[sel.Sel].(*types.Func); ok && target == nil {
									if sig, ok := fn.Type().(*types.Signature); ok && sig.Recv() != nil {
										r := sig.Recv().Type()
										if ptr, ok := r.(*types.Pointer); ok {
											r = ptr.Elem()
										}
										if r == types.Type(named) {
											target = fn
										}
									}
								}
							}
							return true
						})
						if target == nil {
							continue
						}
						for _, ce := range cc.List {
							if tv, ok := p.TypesInfo.Types[ce]; ok && tv.Value != nil {
								if v, ok := constant.Int64Val(constant.ToInt(tv.Value)); ok {
									if fn := c.Prog.FuncValue(target); fn != nil {
										out[v] = fn
									}
								}
							}
						}
					}
					return true
				})
			}
		}
	}
	return out
}

// payloadReader: the value of bytes.NewBuffer(msg.Payload) in fn (nil if none).
func payloadReaders(fn *ssa.Function) []ssa.Value {
	var out []ssa.Value
	for _, call := range core.Calls(fn) {
		f := call.Common().StaticCallee()
		if f == nil || core.FuncKey(f) != "bytes.NewBuffer" {
			continue
		}
		if v, ok := call.(ssa.Value); ok {
			out = append(out, v)
		}
	}
	return out
}

// answerBuffers: local bytes.Buffer variables of fn.
func answerBuffers(fn *ssa.Function) []ssa.Value {
	var out []ssa.Value
	for _, b := range fn.Blocks {
		for _, in := range b.Instrs {
			al, ok := in.(*ssa.Alloc)
			if !ok {
				continue
			}
			pt, ok := al.Type().(*types.Pointer)
			if !ok {
				continue
			}
			if _, isNamed := pt.Elem().(*types.Named); isNamed && core.TypeIs(pt.Elem(), "bytes", "Buffer") {
				out = append(out, al)
			}
		}
	}
	return out
}

// ruleStatedShapes: stub methods decode / encode what the meta-object advertises.
func ruleStatedShapes(c *core.Ctx, rule string) {
	t := newSigTable(c)
	tables := metaTables(c)
	var recvs []*types.Named
	for n := range tables {
		recvs = append(recvs, n)
	}
	sort.Slice(recvs, func(i, j int) bool { return recvs[i].String() < recvs[j].String() })
	seen := map[string]bool{}
	for _, named := range recvs {
		disp := actionDispatch(c, named)
		tkey := strings.TrimPrefix(named.String(), core.Module+"/")
		for _, e := range tables[named] {
			if e.UID >= 0 && e.ID >= 0 {
				// the identifier an entry carries is the key it is stored (and dispatched) under:
				// the IDL and the proxies are generated from the Uid, messages are routed by the key
				c.Check(e.UID == e.ID, rule, fmt.Sprintf("%s/%s-uid:%d:%s", tkey, e.Kind, e.ID, e.Name), e.Pos,
					"Uid equals the key of the entry",
					fmt.Sprintf("the %s %q is stored under %d and says its Uid is %d: a client built from the meta-object addresses an action the object does not serve under that number", e.Kind, e.Name, e.ID, e.UID))
			}
			if e.Kind != "method" {
				continue
			}
			key := fmt.Sprintf("%s/action:%d:%s", tkey, e.ID, e.Name)
			fn := disp[e.ID]
			if fn == nil {
				// actions served by the generic object (ids under 100) are not dispatched here
				if len(disp) == 0 {
					continue
				}
				c.Fail(rule, key, e.Pos, "the meta-object advertises an action the dispatch switch of the same type does not serve")
				continue
			}
			ps, err1 := t.parse(e.Params)
			rs, err2 := t.parse(e.Return)
			if err1 != nil || err2 != nil {
				c.Fail(rule, key, e.Pos, fmt.Sprintf("advertised signature does not parse: %v %v", err1, err2))
				continue
			}
			if ps.Kind != "tuple" {
				c.Fail(rule, key, e.Pos, "the advertised parameters are not a tuple: "+e.Params)
				continue
			}
			bad := ""
			// decode side
			var rd []tok
			prs := payloadReaders(fn)
			if len(prs) == 0 && len(answerBuffers(fn)) == 0 && handsMessageOn(fn) {
				c.PassTrivial(rule, key, fn.Pos(), "the method hands the whole message to the implementation")
				continue
			}
			if len(prs) > 1 {
				c.Undecided(rule, key, fn.Pos(), "several readers over the payload")
				continue
			}
			if len(prs) == 1 {
				var prob string
				rd, prob = shapeOf(c, fn, prs[0])
				if prob != "" {
					c.Undecided(rule, key, fn.Pos(), "decode shape: "+prob)
					continue
				}
			}
			rd = flatten(rd)
			j := 0
			for pi, k := range ps.Kids {
				var d string
				j, d = t.shapeMatches(c, k, rd, j, "read", seen)
				if d != "" {
					bad = fmt.Sprintf("parameter %d of %s: %s (decoded: %s)", pi, e.Params, d, shapeString(rd))
					break
				}
			}
			if bad == "" && j != len(rd) {
				bad = fmt.Sprintf("the method also decodes %s, which %s does not mention", rd[j].String(), e.Params)
			}
			// encode side
			if bad == "" {
				var wr []tok
				abs := answerBuffers(fn)
				if len(abs) > 1 {
					c.Undecided(rule, key, fn.Pos(), "several answer buffers")
					continue
				}
				if len(abs) == 1 {
					var prob string
					wr, prob = shapeOf(c, fn, abs[0])
					if prob != "" {
						c.Undecided(rule, key, fn.Pos(), "encode shape: "+prob)
						continue
					}
				}
				wr = answerArm(flatten(wr))
				k, d := t.shapeMatches(c, rs, wr, 0, "write", seen)
				if d != "" {
					bad = fmt.Sprintf("result %s: %s (encoded: %s)", abbrev(e.Return), d, shapeString(wr))
				} else if k != len(wr) {
					bad = fmt.Sprintf("the answer also carries %s, which %s does not mention", wr[k].String(), abbrev(e.Return))
				}
			}
			c.Check(bad == "", rule, key, fn.Pos(),
				fmt.Sprintf("%s decodes %s and answers %s, as advertised", fn.Name(), abbrev(e.Params), abbrev(e.Return)),
				"a client reads the advertised signature and encodes / decodes by it: "+bad)
		}
	}
}

// ruleStatedTypes: NewParams / NewResponse give the reflection codec Go values
// of the types the signature next to them describes.
func ruleStatedTypes(c *core.Ctx, rule string) {
	t := newSigTable(c)
	ord := map[string]int{}
	for _, fn := range c.RepoFuncs() {
		if c.IsTestFile(fn) {
			continue
		}
		for _, call := range core.Calls(fn) {
			cc := call.Common()
			f := cc.StaticCallee()
			if f == nil {
				continue
			}
			k := core.FuncKey(f)
			if k != "bus.NewParams" && k != "bus.NewResponse" {
				continue
			}
			base := core.FuncKey(fn) + "/" + strings.TrimPrefix(k, "bus.")
			ord[base]++
			key := fmt.Sprintf("%s#%d", base, ord[base])
			sig, ok := core.ConstString(cc.Args[0])
			if !ok {
				// a signature computed at run time (the generic proxy): nothing is stated
				continue
			}
			n, err := t.parse(sig)
			if err != nil {
				c.Fail(rule, key, call.Pos(), fmt.Sprintf("the stated signature %q does not parse: %v", sig, err))
				continue
			}
			bad := ""
			if k == "bus.NewParams" {
				args := variadicArgs(cc.Args[1])
				if args == nil && !isNilSlice(cc.Args[1]) {
					c.Undecided(rule, key, call.Pos(), "argument list not built in place")
					continue
				}
				if n.Kind != "tuple" {
					bad = "the parameters' signature is not a tuple"
				} else if len(args) != len(n.Kids) {
					bad = fmt.Sprintf("%s names %d parameters, %d values are encoded", abbrev(sig), len(n.Kids), len(args))
				} else {
					for i, a := range args {
						if d := t.typeMatches(n.Kids[i], a.Type(), 0); d != "" {
							bad = fmt.Sprintf("parameter %d: %s", i, d)
							break
						}
					}
				}
			} else {
				a := staticOperand(cc.Args[1])
				pt, ok := a.Type().Underlying().(*types.Pointer)
				if !ok {
					bad = fmt.Sprintf("the response is decoded into a %s, not through a pointer", a.Type())
				} else {
					bad = t.typeMatches(n, pt.Elem(), 0)
				}
			}
			c.Check(bad == "", rule, key, call.Pos(), "Go types are the types "+abbrev(sig)+" describes",
				"the reflection codec walks the Go value while the peer reads by the signature: "+bad)
		}
	}
}

// staticOperand looks through the conversion to interface{}.
func staticOperand(v ssa.Value) ssa.Value {
	for {
		switch x := v.(type) {
		case *ssa.MakeInterface:
			v = x.X
			continue
		case *ssa.ChangeInterface:
			v = x.X
			continue
		}
		return v
	}
}

func isNilSlice(v ssa.Value) bool {
	k, ok := v.(*ssa.Const)
	return ok && k.Value == nil
}

// variadicArgs: the values stored into the slice go/ssa builds for f(a, b…),
// in order (nil when v is not such a slice).
func variadicArgs(v ssa.Value) []ssa.Value {
	sl, ok := v.(*ssa.Slice)
	if !ok {
		return nil
	}
	al, ok := sl.X.(*ssa.Alloc)
	if !ok {
		return nil
	}
	arr, ok := al.Type().(*types.Pointer).Elem().(*types.Array)
	if !ok {
		return nil
	}
	out := make([]ssa.Value, arr.Len())
	for _, r := range *al.Referrers() {
		ia, ok := r.(*ssa.IndexAddr)
		if !ok {
			continue
		}
		idx, ok := core.ConstInt(ia.Index)
		if !ok || idx < 0 || idx >= int64(len(out)) {
			return nil
		}
		for _, u := range *ia.Referrers() {
			if st, ok := u.(*ssa.Store); ok && st.Addr == ia {
				out[idx] = staticOperand(st.Val)
			}
		}
	}
	for _, o := range out {
		if o == nil {
			return nil
		}
	}
	return out
}

// answerArm: a branch one side of which leaves without touching the buffer
// (no answer to a post) contributes the other side.
func answerArm(ts []tok) []tok {
	var out []tok
	for _, t := range ts {
		if t.Kind == "alt" {
			var full [][]tok
			for _, a := range t.Arms {
				if len(flatten(a)) > 0 {
					full = append(full, flatten(a))
				}
			}
			if len(full) == 1 {
				out = append(out, answerArm(full[0])...)
				continue
			}
		}
		out = append(out, t)
	}
	return out
}

// handsMessageOn: the message parameter itself is an argument of a call
// through the implementation.
func handsMessageOn(fn *ssa.Function) bool {
	if len(fn.Params) < 2 {
		return false
	}
	for _, call := range implCalls(fn) {
		for _, a := range call.Common().Args {
			if core.Canon(a) == fn.Params[1] {
				return true
			}
		}
	}
	return false
}

// ruleStatedEmitters: the helpers a stub generates to emit a signal or to
// publish a property (UpdateSignal(id, bytes) / UpdateProperty(id, sig, bytes))
// encode what the meta-object of the same type advertises under that id.
func ruleStatedEmitters(c *core.Ctx, rule string) {
	t := newSigTable(c)
	tables := metaTables(c)
	seen := map[string]bool{}
	n := 0
	for _, fn := range c.RepoFuncs() {
		if fn.Parent() != nil || fn.Signature.Recv() == nil || c.IsTestFile(fn) || c.InWitness(fn.Pos()) {
			continue
		}
		rt := fn.Signature.Recv().Type()
		if p, ok := rt.(*types.Pointer); ok {
			rt = p.Elem()
		}
		named, _ := rt.(*types.Named)
		if named == nil || len(tables[named]) == 0 {
			continue
		}
		for _, call := range core.Calls(fn) {
			cc := call.Common()
			if !cc.IsInvoke() {
				continue
			}
			kind := map[string]string{"UpdateSignal": "signal", "UpdateProperty": "property"}[cc.Method.Name()]
			if kind == "" || len(cc.Args) < 2 {
				continue
			}
			id, ok := core.ConstInt(cc.Args[0])
			if !ok {
				continue
			}
			n++
			key := fmt.Sprintf("%s/%s:%d", core.FuncKey(fn), kind, id)
			var entry *metaEntry
			for i := range tables[named] {
				e := &tables[named][i]
				if e.Kind == kind && e.ID == id {
					entry = e
				}
			}
			if entry == nil {
				c.Fail(rule, key, call.Pos(), fmt.Sprintf("the %s emitted under id %d is not in the meta-object the same type advertises: no client can subscribe to it", kind, id))
				continue
			}
			bad := ""
			if kind == "property" && len(cc.Args) == 3 {
				if s, ok := core.ConstString(cc.Args[1]); ok && s != entry.Sig {
					bad = fmt.Sprintf("published with signature %q, advertised as %q", s, entry.Sig)
				}
			}
			sn, err := t.parse(entry.Sig)
			if err != nil {
				c.Fail(rule, key, call.Pos(), fmt.Sprintf("advertised signature %q does not parse: %v", entry.Sig, err))
				continue
			}
			abs := answerBuffers(fn)
			if len(abs) != 1 {
				c.Undecided(rule, key, call.Pos(), fmt.Sprintf("%d local buffers", len(abs)))
				continue
			}
			wr, prob := shapeOf(c, fn, abs[0])
			if prob != "" {
				c.Undecided(rule, key, call.Pos(), "encode shape: "+prob)
				continue
			}
			wr = flatten(wr)
			if bad == "" {
				k, d := t.shapeMatches(c, sn, wr, 0, "write", seen)
				if d != "" {
					bad = fmt.Sprintf("%s (encoded: %s)", d, shapeString(wr))
				} else if k != len(wr) {
					bad = fmt.Sprintf("the payload also carries %s, which %s does not mention", wr[k].String(), abbrev(entry.Sig))
				}
			}
			c.Check(bad == "", rule, key, call.Pos(), fmt.Sprintf("%s %q is emitted as %s, as advertised", kind, entry.Name, abbrev(entry.Sig)),
				"subscribers decode the payload by the advertised signature: "+bad)
		}
	}
	_ = n
}

// ruleStatedSubscribers: a typed subscription resolves its signal or property
// with MetaObject.SignalID / PropertyID(name, signature) and decodes each
// payload in a function literal: what it decodes is that signature.
func ruleStatedSubscribers(c *core.Ctx, rule string) {
	t := newSigTable(c)
	seen := map[string]bool{}
	for _, fn := range c.RepoFuncs() {
		if fn.Parent() != nil || c.IsTestFile(fn) || c.InWitness(fn.Pos()) {
			continue
		}
		sig, name := "", ""
		var pos token.Pos
		for _, call := range core.Calls(fn) {
			cc := call.Common()
			f := cc.StaticCallee()
			if f == nil || f.Signature.Recv() == nil || (f.Name() != "SignalID" && f.Name() != "PropertyID") {
				continue
			}
			if !core.TypeIs(f.Signature.Recv().Type(), "type/object", "MetaObject") {
				if p, ok := f.Signature.Recv().Type().(*types.Pointer); !ok || !core.TypeIs(p.Elem(), "type/object", "MetaObject") {
					continue
				}
			}
			if len(cc.Args) != 3 {
				continue
			}
			if s, ok := core.ConstString(cc.Args[2]); ok {
				sig, pos = s, call.Pos()
				name, _ = core.ConstString(cc.Args[1])
			}
		}
		if sig == "" {
			continue
		}
		key := fmt.Sprintf("%s/subscribes:%s", core.FuncKey(fn), name)
		sn, err := t.parse(sig)
		if err != nil {
			c.Fail(rule, key, pos, fmt.Sprintf("the stated signature %q does not parse: %v", sig, err))
			continue
		}
		// the literal that decodes the payloads
		var lit *ssa.Function
		var rd ssa.Value
		for _, g := range core.AnonFuncs(fn) {
			if g == fn {
				continue
			}
			if prs := payloadReaders(g); len(prs) == 1 {
				if lit != nil {
					lit = nil
					break
				}
				lit, rd = g, prs[0]
			}
		}
		if lit == nil {
			c.Undecided(rule, key, pos, "no single function literal decoding the payloads found")
			continue
		}
		toks, prob := shapeOf(c, lit, rd)
		if prob != "" {
			c.Undecided(rule, key, pos, "decode shape: "+prob)
			continue
		}
		toks = flatten(toks)
		// the decoding sits in the forwarding loop: one payload per iteration
		for len(toks) == 1 && toks[0].Kind == "rep" {
			toks = flatten(toks[0].Kids)
		}
		toks = answerArm(toks)
		k, d := t.shapeMatches(c, sn, toks, 0, "read", seen)
		bad := ""
		if d != "" {
			bad = fmt.Sprintf("%s (decoded: %s)", d, shapeString(toks))
		} else if k != len(toks) {
			bad = fmt.Sprintf("each payload is also decoded as %s, which %s does not mention", toks[k].String(), abbrev(sig))
		}
		c.Check(bad == "", rule, key, pos, fmt.Sprintf("payloads of %q are decoded as %s, the signature the subscription asks for", name, abbrev(sig)),
			"the emitter encodes by the signature the subscription names: "+bad)
	}
}

// ruleStatedAccessors: generated property accessors.  A setter wraps the bytes
// it encoded as value.Opaque(sig, buf.Bytes()): what was encoded is sig.  A
// getter writes the value it received into a buffer, reads the signature back,
// compares it with a constant and decodes the rest: what it decodes is that
// constant.
func ruleStatedAccessors(c *core.Ctx, rule string) {
	t := newSigTable(c)
	seen := map[string]bool{}
	for _, fn := range c.RepoFuncs() {
		if fn.Parent() != nil || c.IsTestFile(fn) || c.InWitness(fn.Pos()) {
			continue
		}
		for _, call := range core.Calls(fn) {
			cc := call.Common()
			f := cc.StaticCallee()
			if f == nil {
				continue
			}
			switch core.FuncKey(f) {
			case "type/value.Opaque":
				sig, ok := core.ConstString(cc.Args[0])
				if !ok {
					continue
				}
				key := fmt.Sprintf("%s/opaque:%s", core.FuncKey(fn), abbrev(sig))
				// the bytes: buf.Bytes() of a local buffer
				bc, _ := core.Canon(cc.Args[1]).(*ssa.Call)
				var buf ssa.Value
				if bc != nil {
					if bf := bc.Call.StaticCallee(); bf != nil && core.FuncKey(bf) == "bytes.Buffer.Bytes" && len(bc.Call.Args) == 1 {
						buf = core.Canon(bc.Call.Args[0])
					}
				}
				if _, isAl := buf.(*ssa.Alloc); !isAl {
					continue // bytes that were not encoded here
				}
				sn, err := t.parse(sig)
				if err != nil {
					c.Fail(rule, key, call.Pos(), fmt.Sprintf("the stated signature %q does not parse: %v", sig, err))
					continue
				}
				wr, prob := shapeOf(c, fn, buf)
				if prob != "" {
					c.Undecided(rule, key, call.Pos(), "encode shape: "+prob)
					continue
				}
				wr = flatten(wr)
				k, d := t.shapeMatches(c, sn, wr, 0, "write", seen)
				bad := ""
				if d != "" {
					bad = fmt.Sprintf("%s (encoded: %s)", d, shapeString(wr))
				} else if k != len(wr) {
					bad = fmt.Sprintf("the buffer also carries %s", wr[k].String())
				}
				c.Check(bad == "", rule, key, call.Pos(), "the bytes wrapped are an encoding of "+abbrev(sig),
					"the object validates and stores the value under the signature stated here: "+bad)
			case "type/basic.ReadString":
				// s, err := basic.ReadString(&buf); … sig != s …
				cv, ok := call.(*ssa.Call)
				if !ok || len(cc.Args) != 1 {
					continue
				}
				buf := core.Canon(cc.Args[0])
				if _, isAl := buf.(*ssa.Alloc); !isAl {
					continue
				}
				read := firstResult(cv)
				sig := ""
				for _, r := range core.Referrers(read) {
					if bo, ok := r.(*ssa.BinOp); ok && (bo.Op == token.NEQ || bo.Op == token.EQL) {
						for _, side := range []ssa.Value{bo.X, bo.Y} {
							if s, ok := core.ConstString(core.Canon(side)); ok {
								sig = s
							}
						}
					}
				}
				if sig == "" {
					continue
				}
				key := fmt.Sprintf("%s/expects:%s", core.FuncKey(fn), abbrev(sig))
				sn, err := t.parse(sig)
				if err != nil {
					c.Fail(rule, key, call.Pos(), fmt.Sprintf("the expected signature %q does not parse: %v", sig, err))
					continue
				}
				all, prob := shapeOf(c, fn, buf)
				if prob != "" {
					c.Undecided(rule, key, call.Pos(), "decode shape: "+prob)
					continue
				}
				var rd []tok
				for _, x := range answerArm(flatten(all)) {
					if x.Kind == "prim" && x.Dir == "write" {
						continue
					}
					rd = append(rd, x)
				}
				bad := ""
				if len(rd) == 0 || rd[0].Kind != "prim" || rd[0].Name != "String" {
					bad = "the signature is not the first thing read back (" + shapeString(rd) + ")"
				} else {
					k, d := t.shapeMatches(c, sn, rd[1:], 0, "read", seen)
					if d != "" {
						bad = fmt.Sprintf("%s (decoded: %s)", d, shapeString(rd[1:]))
					} else if k != len(rd)-1 {
						bad = fmt.Sprintf("also decodes %s", rd[1+k].String())
					}
				}
				c.Check(bad == "", rule, key, call.Pos(), "a value whose signature is "+abbrev(sig)+" is decoded as that",
					"the getter accepts a value of one signature and decodes it as another: "+bad)
			}
		}
	}
}

// ruleValidatorDecodesDeclared: the generated onPropertyChange(name, data) of a
// stub decodes, under the case of a property name, the signature the
// meta-object of the same type declares for that property, before handing the
// value to the implementation's validator.
func ruleValidatorDecodesDeclared(c *core.Ctx, rule string) int {
	t := newSigTable(c)
	tables := metaTables(c)
	seen := map[string]bool{}
	n := 0
	for _, fn := range c.RepoFuncs() {
		if fn.Parent() != nil || fn.Signature.Recv() == nil || c.IsTestFile(fn) || c.InWitness(fn.Pos()) || len(fn.Params) != 3 {
			continue
		}
		if b, ok := fn.Params[1].Type().Underlying().(*types.Basic); !ok || b.Kind() != types.String {
			continue
		}
		if sl, ok := fn.Params[2].Type().Underlying().(*types.Slice); !ok || !types.Identical(sl.Elem(), types.Typ[types.Byte]) {
			continue
		}
		rt := fn.Signature.Recv().Type()
		if p, ok := rt.(*types.Pointer); ok {
			rt = p.Elem()
		}
		named, _ := rt.(*types.Named)
		if named == nil || tables[named] == nil {
			continue
		}
		isName := func(v ssa.Value) bool { return core.Canon(v) == ssa.Value(fn.Params[1]) }
		for _, rd := range payloadReaders(fn) {
			in := rd.(ssa.Instruction)
			var entry *metaEntry
			for i := range tables[named] {
				e := &tables[named][i]
				if e.Kind != "property" {
					continue
				}
				want := e.Name
				isS := func(v ssa.Value) bool { s, ok := core.ConstString(core.Canon(v)); return ok && s == want }
				if core.Guarded(fn, in, core.Eq(isName, isS)) {
					entry = e
				}
			}
			n++
			if entry == nil {
				c.Fail(rule, fmt.Sprintf("%s/validator#%d", core.FuncKey(fn), n), in.Pos(), "a property value is decoded under a name the meta-object of the same type does not declare")
				continue
			}
			key := fmt.Sprintf("%s/validator:%s", core.FuncKey(fn), entry.Name)
			sn, err := t.parse(entry.Sig)
			if err != nil {
				c.Fail(rule, key, in.Pos(), fmt.Sprintf("declared signature %q does not parse: %v", entry.Sig, err))
				continue
			}
			toks, prob := shapeOf(c, fn, rd)
			if prob != "" {
				c.Undecided(rule, key, in.Pos(), "decode shape: "+prob)
				continue
			}
			toks = answerArm(flatten(toks))
			k, d := t.shapeMatches(c, sn, toks, 0, "read", seen)
			bad := ""
			if d != "" {
				bad = fmt.Sprintf("%s (decoded: %s)", d, shapeString(toks))
			} else if k != len(toks) {
				bad = fmt.Sprintf("also decodes %s", toks[k].String())
			}
			c.Check(bad == "", rule, key, in.Pos(), fmt.Sprintf("the value handed to the validator of %q is decoded as %s, its declared signature", entry.Name, abbrev(entry.Sig)),
				"SetProperty admits values of the declared signature and the validator decodes them as another: "+bad)
		}
	}
	return n
}

// ruleReferenceOfReturnedObject: a stub that answers with an object reference
// builds it from the object it was given back — service id, object id and
// meta-object all asked of that one proxy.  A reference assembled from another
// source (the stub's own service id) designates another object as soon as the
// implementation returns an object hosted elsewhere.
func ruleReferenceOfReturnedObject(c *core.Ctx, rule string) {
	n := 0
	for _, fn := range c.RepoFuncs() {
		if c.IsTestFile(fn) || c.InWitness(fn.Pos()) {
			continue
		}
		root := fn
		for root.Parent() != nil {
			root = root.Parent()
		}
		if root.Signature.Recv() == nil || len(implCalls(root)) == 0 {
			continue
		}
		for _, b := range fn.Blocks {
			for _, in := range b.Instrs {
				al, ok := in.(*ssa.Alloc)
				if !ok {
					continue
				}
				pt, _ := al.Type().(*types.Pointer)
				if pt == nil || !core.TypeIs(pt.Elem(), "type/object", "ObjectReference") {
					continue
				}
				if _, isNamed := pt.Elem().(*types.Named); !isNamed {
					continue
				}
				st, _ := pt.Elem().Underlying().(*types.Struct)
				// the values given to ServiceID and ObjectID
				vals := map[string]ssa.Value{}
				for _, r := range core.Referrers(al) {
					fa, ok := r.(*ssa.FieldAddr)
					if !ok || st == nil || fa.Field >= st.NumFields() {
						continue
					}
					for _, u := range core.Referrers(fa) {
						if s, ok := u.(*ssa.Store); ok && s.Addr == ssa.Value(fa) {
							vals[st.Field(fa.Field).Name()] = s.Val
						}
					}
				}
				sv, ov := vals["ServiceID"], vals["ObjectID"]
				if sv == nil || ov == nil {
					continue
				}
				n++
				key := fmt.Sprintf("%s/reference#%d", core.FuncKey(root), n)
				asked := func(v ssa.Value, method string) ssa.Value {
					cr, _ := core.CallResult(core.Canon(v))
					if cr == nil || !cr.Common().IsInvoke() || cr.Common().Method.Name() != method {
						return nil
					}
					return cr.Common().Value
				}
				sOf, oOf := asked(sv, "ServiceID"), asked(ov, "ObjectID")
				bad := ""
				switch {
				case oOf == nil:
					bad = "the object id of the reference is not asked of a proxy"
				case sOf == nil:
					bad = "the object id is the returned object's, the service id is taken from somewhere else (" + core.Canon(sv).String() + ")"
				default:
					// both asked of the same proxy: x.Proxy().ServiceID() / x.Proxy().ObjectID()
					ownerOf := func(v ssa.Value) ssa.Value {
						if cr, _ := core.CallResult(core.Canon(v)); cr != nil && cr.Common().IsInvoke() && cr.Common().Method.Name() == "Proxy" {
							return core.Canon(cr.Common().Value)
						}
						return core.Canon(v)
					}
					if ownerOf(sOf) != ownerOf(oOf) && !core.SameValue(ownerOf(sOf), ownerOf(oOf)) {
						bad = "service id and object id are asked of two different objects"
					}
				}
				c.Check(bad == "", rule, key, al.Pos(), "service id and object id of the reference are asked of the one object it designates",
					"an object reference names (service, object): "+bad+" — a returned object hosted by another service is designated wrongly, the caller's proxy talks to another object or to none")
			}
		}
	}
	if n == 0 {
		c.Undecided(rule, "object references built by stubs", token.NoPos, "no stub building an object reference found")
	}
}
