package rules

import (
	"fmt"
	"go/ast"
	"go/token"
	"go/types"
	"golang.org/x/tools/go/packages"
	"os"
	"path/filepath"
	"regexp"
	"sort"
	"strconv"
	"strings"

	"golang.org/x/tools/go/ssa"

	"qicheck/internal/core"
)

// ---------------------------------------------------------------- primitives

// primInfo is what is derived from the body of a type/basic primitive.
type primInfo struct {
	Name     string // e.g. Uint32
	Dir      string // read | write
	Width    int64  // bytes moved through ReadN/WriteN (0 if delegated)
	Endian   string // little | big | "" (single byte / delegated)
	BinOp    string // encoding/binary method used (Uint32, PutUint32 …)
	Delegate string // primitive it forwards to (ReadInt32 -> Uint32)
	GoType   types.Type
	Fn       *ssa.Function
}

// derivePrims analyses every Read*/Write* function of type/basic.
func derivePrims(c *core.Ctx) map[string]*primInfo {
	out := map[string]*primInfo{}
	sp := c.SSAPkg("type/basic")
	if sp == nil {
		return out
	}
	readN, writeN := sp.Func("ReadN"), sp.Func("WriteN")
	for name, m := range sp.Members {
		fn, ok := m.(*ssa.Function)
		if !ok {
			continue
		}
		pn, dir := basicPrim(fn)
		if pn == "" || pn == "Bytes" || pn == "String" {
			continue
		}
		pi := &primInfo{Name: pn, Dir: dir, Fn: fn}
		if dir == "read" {
			pi.GoType = fn.Signature.Results().At(0).Type()
		} else {
			pi.GoType = fn.Signature.Params().At(0).Type()
		}
		for _, call := range core.Calls(fn) {
			f := core.StaticCallee(call)
			if f == nil {
				continue
			}
			switch {
			case f == readN || f == writeN:
				if k, ok := core.ConstInt(call.Common().Args[2]); ok {
					pi.Width = k
				} else {
					pi.Width = -1
				}
			case f.Pkg != nil && f.Pkg.Pkg.Path() == "encoding/binary":
				pi.BinOp = f.Name()
				if f.Signature.Recv() != nil {
					rt := f.Signature.Recv().Type().String()
					switch {
					case strings.Contains(rt, "littleEndian"):
						pi.Endian = "little"
					case strings.Contains(rt, "bigEndian"):
						pi.Endian = "big"
					default:
						pi.Endian = rt
					}
				}
			default:
				if dn, ddir := basicPrim(f); dn != "" && ddir == dir && dn != "Bytes" {
					pi.Delegate = dn
				} else if j, ok := movesParamBytes(f, readN, writeN); ok && j < len(call.Common().Args) {
					// a private helper of the package (readExact(r, n)) that moves as many
					// bytes as its parameter says
					if k, isK := core.ConstInt(call.Common().Args[j]); isK {
						pi.Width = k
					} else {
						pi.Width = -1
					}
				}
			}
		}
		out[name] = pi
	}
	return out
}

// resolveWidth follows delegation.
func resolveWidth(prims map[string]*primInfo, pi *primInfo, depth int) (int64, string) {
	if pi == nil || depth > 4 {
		return -1, ""
	}
	if pi.Delegate != "" && pi.Width == 0 {
		pre := "Read"
		if pi.Dir == "write" {
			pre = "Write"
		}
		return resolveWidth(prims, prims[pre+pi.Delegate], depth+1)
	}
	return pi.Width, pi.Endian
}

// goTypeWidth is the size of a Go scalar type named by a primitive.
var primWidth = map[string]int64{"Uint8": 1, "Int8": 1, "Uint16": 2, "Int16": 2, "Uint32": 4, "Int32": 4, "Uint64": 8, "Int64": 8, "Float32": 4, "Float64": 8, "Bool": 1}

var primGoType = map[string]string{"Uint8": "uint8", "Int8": "int8", "Uint16": "uint16", "Int16": "int16", "Uint32": "uint32", "Int32": "int32", "Uint64": "uint64", "Int64": "int64", "Float32": "float32", "Float64": "float64", "Bool": "bool", "String": "string"}

// rulePrimitives checks every primitive pair: width of the bytes moved =
// size of its Go type, little endian, reader and writer agree.
func rulePrimitives(c *core.Ctx, rule string) map[string]*primInfo {
	prims := derivePrims(c)
	names := make([]string, 0, len(primWidth))
	for n := range primWidth {
		names = append(names, n)
	}
	sort.Strings(names)
	for _, n := range names {
		r, w := prims["Read"+n], prims["Write"+n]
		key := "type/basic." + n
		if r == nil || w == nil {
			c.Fail(rule, key, token.NoPos, "primitive Read"+n+"/Write"+n+" missing")
			continue
		}
		rw, re := resolveWidth(prims, r, 0)
		ww, we := resolveWidth(prims, w, 0)
		bad := ""
		switch {
		case rw != primWidth[n]:
			bad = fmt.Sprintf("Read%s consumes %d bytes, a %s is %d bytes on the wire", n, rw, primGoType[n], primWidth[n])
		case ww != primWidth[n]:
			bad = fmt.Sprintf("Write%s emits %d bytes, a %s is %d bytes on the wire", n, ww, primGoType[n], primWidth[n])
		case primWidth[n] > 1 && (re != "little" || we != "little"):
			bad = fmt.Sprintf("Read%s is %s endian, Write%s is %s endian: the documented layout is little endian", n, re, n, we)
		case r.GoType.String() != primGoType[n] || w.GoType.String() != primGoType[n]:
			bad = fmt.Sprintf("Read%s returns %s, Write%s takes %s, expected %s", n, r.GoType, n, w.GoType, primGoType[n])
		}
		// the encoding/binary operation has the width of the primitive
		for _, pi := range []*primInfo{r, w} {
			if pi.BinOp != "" && bad == "" {
				digits := strings.TrimLeft(pi.BinOp, "PutUint")
				if bw, err := strconv.Atoi(digits); err == nil && int64(bw/8) != primWidth[n] && pi.Delegate == "" {
					bad = fmt.Sprintf("%s%s converts with binary.%s but moves %d bytes", map[string]string{"read": "Read", "write": "Write"}[pi.Dir], n, pi.BinOp, primWidth[n])
				}
			}
		}
		c.Check(bad == "", rule, key, r.Fn.Pos(), fmt.Sprintf("%d byte(s), %s, Go type %s, reader and writer agree", primWidth[n], map[bool]string{true: "little endian", false: "single byte"}[primWidth[n] > 1], primGoType[n]), bad)
	}
	return prims
}

// ---------------------------------------------------------------- doc

type docField struct {
	CType string
	Name  string
	Width int64
}

// parseDocHeader extracts the fields of `struct header_t { … }` from the doc.
func parseDocHeader(repo string) ([]docField, bool, error) {
	b, err := os.ReadFile(filepath.Join(repo, "doc", "about-qimessaging.md"))
	if err != nil {
		return nil, false, err
	}
	text := string(b)
	i := strings.Index(text, "struct header_t")
	if i < 0 {
		return nil, false, fmt.Errorf("struct header_t block not found in doc/about-qimessaging.md")
	}
	j := strings.Index(text[i:], "};")
	if j < 0 {
		return nil, false, fmt.Errorf("struct header_t block not terminated")
	}
	re := regexp.MustCompile(`(?m)^\s*(u?int(8|16|32|64)_t)\s+(\w+)\s*;`)
	var out []docField
	for _, m := range re.FindAllStringSubmatch(text[i:i+j], -1) {
		w, _ := strconv.Atoi(m[2])
		out = append(out, docField{m[1], m[3], int64(w / 8)})
	}
	magicBE := regexp.MustCompile(`(?i)magic value \(0x42dead42\) is written in big endian`).MatchString(text) &&
		regexp.MustCompile(`(?i)all values are transmitted in little endian`).MatchString(strings.ReplaceAll(text, "\n", " "))
	return out, magicBE, nil
}

// parseDocBasicTypes extracts the widths of the Serialization/Basic types list:
// "**integer**: 32 bits little endian signed (int32)".
func parseDocBasicTypes(repo string) (map[string]int64, error) {
	b, err := os.ReadFile(filepath.Join(repo, "doc", "about-qimessaging.md"))
	if err != nil {
		return nil, err
	}
	text := string(b)
	i := strings.Index(text, "## Serialization")
	if i < 0 {
		return nil, fmt.Errorf("Serialization section not found")
	}
	sec := text[i:]
	if j := strings.Index(sec[3:], "\n## "); j > 0 {
		sec = sec[:j+3]
	}
	out := map[string]int64{}
	re := regexp.MustCompile(`(?m)^-\s+\*\*[^*]+\*\*:\s*(\d+)\s*(bits|bites|byte)[^(\n]*\((\w+)\)`)
	for _, m := range re.FindAllStringSubmatch(sec, -1) {
		n, _ := strconv.Atoi(m[1])
		w := int64(n)
		if m[2] != "byte" {
			w = int64(n / 8)
		}
		out[m[3]] = w
	}
	return out, nil
}

// ---------------------------------------------------------------- signature type constructors

type ctorRow struct {
	Func      string
	Signature string
	IDL       string
	ReaderW   int64 // constReader(n); -1 string, -2 value, -3 other
	ReaderStr string
	GoType    string
	Marshal   string // basic primitive named in the marshal template
	Unmarshal string
	Pos       token.Pos
	// for constructors whose reader / Go type are derived from a signature
	// string (MakeReader(x), Parse(y).Type()): the strings, "?" if they cannot
	// be resolved statically, "" if not of that form
	ReaderSig string
	TypSig    string
}

// ctorTable extracts the rows of the scalar type constructors of
// meta/signature (functions returning &typeConstructor{…}, directly or through
// a parameterised helper such as newScalarType(sig, idl, codec, …): then one
// row per caller, the helper's parameters replaced by the caller's arguments).
func ctorTable(c *core.Ctx) []ctorRow {
	p := c.Pkg("meta/signature")
	if p == nil {
		return nil
	}
	info := p.TypesInfo
	type tmpl struct {
		fd *ast.FuncDecl
		cl *ast.CompositeLit
	}
	var tmpls []tmpl
	for _, f := range p.Syntax {
		if strings.HasSuffix(p.Fset.Position(f.Pos()).Filename, "_test.go") {
			continue
		}
		for _, d := range f.Decls {
			fd, ok := d.(*ast.FuncDecl)
			if !ok || fd.Body == nil || fd.Recv != nil {
				continue
			}
			ast.Inspect(fd.Body, func(n ast.Node) bool {
				cl, ok := n.(*ast.CompositeLit)
				if !ok {
					return true
				}
				if id, ok := cl.Type.(*ast.Ident); ok && id.Name == "typeConstructor" {
					tmpls = append(tmpls, tmpl{fd, cl})
					return false
				}
				return true
			})
		}
	}
	var rows []ctorRow
	for _, t := range tmpls {
		nparams := 0
		if t.fd.Type.Params != nil {
			for _, f := range t.fd.Type.Params.List {
				nparams += len(f.Names)
			}
		}
		if nparams == 0 {
			rows = append(rows, rowFromLiteral(p, t.fd, t.fd.Name.Name, t.cl, nil))
			continue
		}
		// a template: one row per function that returns a call of it
		tobj := info.Defs[t.fd.Name]
		var params []types.Object
		for _, f := range t.fd.Type.Params.List {
			for _, nm := range f.Names {
				params = append(params, info.Defs[nm])
			}
		}
		for _, f := range p.Syntax {
			for _, d := range f.Decls {
				caller, ok := d.(*ast.FuncDecl)
				if !ok || caller.Body == nil || caller == t.fd {
					continue
				}
				ast.Inspect(caller.Body, func(n ast.Node) bool {
					call, ok := n.(*ast.CallExpr)
					if !ok {
						return true
					}
					id, ok := call.Fun.(*ast.Ident)
					if !ok || info.Uses[id] != tobj || len(call.Args) != len(params) {
						return true
					}
					env := map[types.Object]ast.Expr{}
					for i, po := range params {
						env[po] = call.Args[i]
					}
					r := rowFromLiteral(p, t.fd, caller.Name.Name, t.cl, env)
					r.Pos = call.Pos()
					rows = append(rows, r)
					return false
				})
			}
		}
	}
	sort.Slice(rows, func(i, j int) bool { return rows[i].Func < rows[j].Func })
	return rows
}

// rowFromLiteral reads one typeConstructor literal; env maps the parameters of
// the enclosing template function to the arguments of one of its callers.
func rowFromLiteral(p *packages.Package, fd *ast.FuncDecl, name string, cl *ast.CompositeLit, env map[types.Object]ast.Expr) ctorRow {
	info := p.TypesInfo
	row := ctorRow{Func: name, Pos: cl.Pos(), ReaderW: -3}
	subst := func(e ast.Expr) ast.Expr {
		if id, ok := e.(*ast.Ident); ok && env != nil {
			if a, ok := env[info.ObjectOf(id)]; ok {
				return a
			}
		}
		return e
	}
	str := func(e ast.Expr) string {
		if v, ok := staticStringEnv(p, e, env, 0); ok {
			return v
		}
		return ""
	}
	for _, el := range cl.Elts {
		kv, ok := el.(*ast.KeyValueExpr)
		if !ok {
			continue
		}
		k, _ := kv.Key.(*ast.Ident)
		if k == nil {
			continue
		}
		val := subst(kv.Value)
		switch k.Name {
		case "signature":
			row.Signature = str(kv.Value)
		case "signatureIDL":
			row.IDL = str(kv.Value)
		case "reader":
			row.ReaderStr = types.ExprString(val)
			if call, ok := val.(*ast.CallExpr); ok {
				if fn, ok := call.Fun.(*ast.Ident); ok && fn.Name == "constReader" && len(call.Args) == 1 {
					if tv, ok := info.Types[subst(call.Args[0])]; ok && tv.Value != nil {
						w, _ := strconv.ParseInt(tv.Value.ExactString(), 10, 64)
						row.ReaderW = w
					}
				}
			}
			if cl2, ok := val.(*ast.CompositeLit); ok {
				switch types.ExprString(cl2.Type) {
				case "stringReader":
					row.ReaderW = -1
				case "valueReader":
					row.ReaderW = -2
				}
			}
			if id, ok := val.(*ast.Ident); ok {
				row.ReaderSig = derivedFrom(p, fd, id, "MakeReader")
			}
		case "typ":
			if call, ok := val.(*ast.CallExpr); ok {
				if len(call.Args) == 1 {
					if t := info.TypeOf(call.Args[0]); t != nil {
						row.GoType = t.String()
					}
				}
				if sel, ok := call.Fun.(*ast.SelectorExpr); ok && sel.Sel.Name == "Type" {
					if id, ok := sel.X.(*ast.Ident); ok {
						row.TypSig = derivedFrom(p, fd, id, "Parse")
					}
				}
			}
			if id, ok := val.(*ast.Ident); ok {
				// a Go type obtained from a helper next to the reader
				row.TypSig = derivedFrom(p, fd, id, "Parse")
			}
		case "marshal", "unmarshal":
			// the primitive named by the emitter: a string operand (literal, constant,
			// local or parameter-derived) of the form [basic.]Write… / Read… / NewValue
			found := ""
			ast.Inspect(kv.Value, func(m ast.Node) bool {
				if found != "" {
					return false
				}
				e, ok := m.(ast.Expr)
				if !ok {
					return true
				}
				t := info.TypeOf(e)
				if t == nil {
					return true
				}
				if b, isB := t.Underlying().(*types.Basic); !isB || b.Info()&types.IsString == 0 {
					return true
				}
				if s, ok := staticStringEnv(p, e, env, 0); ok {
					s = strings.TrimPrefix(s, "basic.")
					if strings.HasPrefix(s, "Write") || strings.HasPrefix(s, "Read") || s == "NewValue" {
						found = s
					}
					return false
				}
				return true
			})
			if found != "" {
				if k.Name == "marshal" {
					row.Marshal = found
				} else {
					row.Unmarshal = found
				}
			}
		}
	}
	return row
}

// derivedFrom: local variable id of fd is defined by `id, _ := <fn>(arg)`;
// returns the static value of arg ("?" if it cannot be resolved, "" if id is
// not defined that way).
func derivedFrom(p *packages.Package, fd *ast.FuncDecl, id *ast.Ident, fn string) string {
	obj := p.TypesInfo.ObjectOf(id)
	res := ""
	ast.Inspect(fd.Body, func(n ast.Node) bool {
		as, ok := n.(*ast.AssignStmt)
		if !ok || len(as.Rhs) != 1 || len(as.Lhs) == 0 {
			return true
		}
		at := -1
		for i, lh := range as.Lhs {
			if l, ok := lh.(*ast.Ident); ok && p.TypesInfo.ObjectOf(l) == obj {
				at = i
			}
		}
		if at < 0 {
			return true
		}
		call, ok := as.Rhs[0].(*ast.CallExpr)
		if !ok || len(call.Args) != 1 {
			return true
		}
		name := ""
		var local *ast.Ident
		switch f := call.Fun.(type) {
		case *ast.Ident:
			name = f.Name
			local = f
		case *ast.SelectorExpr:
			name = f.Sel.Name
		}
		if name != fn || at != 0 {
			// `typ, reader := referenceType(sig)`: a helper of the package that hands its
			// one string parameter to Parse / MakeReader and returns what they gave
			if local == nil || !helperDerivesFromParam(p, local) {
				return true
			}
		}
		if v, ok := staticString(p, call.Args[0], 0); ok {
			res = v
		} else {
			res = "?"
		}
		return true
	})
	return res
}

// staticString evaluates a string expression that is a constant, a local or
// package-level variable with a single static initialiser, a concatenation of
// such, or fmt.Sprintf with a constant format using only %s and static arguments.
func staticString(p *packages.Package, e ast.Expr, depth int) (string, bool) {
	return staticStringEnv(p, e, nil, depth)
}

// staticStringEnv: as staticString, with identifiers bound by env (parameters
// of a template function -> arguments of one caller) replaced first.
func staticStringEnv(p *packages.Package, e ast.Expr, env map[types.Object]ast.Expr, depth int) (string, bool) {
	info := p.TypesInfo
	if depth > 8 {
		return "", false
	}
	if id, ok := e.(*ast.Ident); ok && env != nil {
		if a, ok := env[info.ObjectOf(id)]; ok {
			return staticStringEnv(p, a, nil, depth+1)
		}
	}
	if tv, ok := info.Types[e]; ok && tv.Value != nil {
		return stringLit(info, e), true
	}
	switch x := e.(type) {
	case *ast.ParenExpr:
		return staticStringEnv(p, x.X, env, depth+1)
	case *ast.BinaryExpr:
		if x.Op == token.ADD {
			a, ok1 := staticStringEnv(p, x.X, env, depth+1)
			b, ok2 := staticStringEnv(p, x.Y, env, depth+1)
			return a + b, ok1 && ok2
		}
	case *ast.Ident:
		obj, ok := info.ObjectOf(x).(*types.Var)
		if !ok {
			return "", false
		}
		// find the single defining initialiser (package level or local :=)
		var init ast.Expr
		n := 0
		for _, f := range p.Syntax {
			ast.Inspect(f, func(m ast.Node) bool {
				switch d := m.(type) {
				case *ast.ValueSpec:
					for i, nm := range d.Names {
						if info.Defs[nm] == obj && i < len(d.Values) {
							init = d.Values[i]
							n++
						}
					}
				case *ast.AssignStmt:
					for i, l := range d.Lhs {
						if id, ok := l.(*ast.Ident); ok && info.ObjectOf(id) == obj && len(d.Lhs) == len(d.Rhs) {
							init = d.Rhs[i]
							n++
						}
					}
				}
				return true
			})
		}
		if n == 1 && init != nil {
			return staticStringEnv(p, init, env, depth+1)
		}
	case *ast.CallExpr:
		if sel, ok := x.Fun.(*ast.SelectorExpr); ok && sel.Sel.Name == "Sprintf" && len(x.Args) >= 1 {
			format, ok := staticStringEnv(p, x.Args[0], env, depth+1)
			if !ok {
				return "", false
			}
			var out strings.Builder
			ai := 1
			for i := 0; i < len(format); i++ {
				if format[i] != '%' {
					out.WriteByte(format[i])
					continue
				}
				if i+1 >= len(format) {
					return "", false
				}
				i++
				switch format[i] {
				case '%':
					out.WriteByte('%')
				case 's':
					if ai >= len(x.Args) {
						return "", false
					}
					v, ok := staticStringEnv(p, x.Args[ai], env, depth+1)
					if !ok {
						return "", false
					}
					out.WriteString(v)
					ai++
				default:
					return "", false
				}
			}
			return out.String(), true
		}
	}
	return "", false
}

func stringLit(info *types.Info, e ast.Expr) string {
	if tv, ok := info.Types[e]; ok && tv.Value != nil {
		s := tv.Value.ExactString()
		if u, err := strconv.Unquote(s); err == nil {
			return u
		}
		return s
	}
	return ""
}

// scalarOracle: signature letter -> (primitive name, width).  From the
// property statement and doc/about-qimessaging.md (Serialization).
var scalarOracle = map[string]struct {
	Prim  string
	Width int64
	IDL   string
}{
	"c": {"Int8", 1, "int8"}, "C": {"Uint8", 1, "uint8"}, "w": {"Int16", 2, "int16"}, "W": {"Uint16", 2, "uint16"},
	"i": {"Int32", 4, "int32"}, "I": {"Uint32", 4, "uint32"}, "l": {"Int64", 8, "int64"}, "L": {"Uint64", 8, "uint64"},
	"f": {"Float32", 4, "float32"}, "d": {"Float64", 8, "float64"}, "b": {"Bool", 1, "bool"},
}

// movesParamBytes: f is an unexported function of type/basic that hands ReadN / WriteN a
// length which is its own parameter j (directly, or as the length of a buffer it made
// with that parameter).
func movesParamBytes(f, readN, writeN *ssa.Function) (int, bool) {
	if f == nil || f.Object() == nil || f.Object().Exported() || len(f.Blocks) == 0 {
		return 0, false
	}
	idx := -1
	for _, call := range core.Calls(f) {
		g := core.StaticCallee(call)
		if g == nil || (g != readN && g != writeN) {
			continue
		}
		v := core.Canon(core.StripConv(call.Common().Args[2]))
		if lc, ok := v.(*ssa.Call); ok {
			if bi, isB := lc.Call.Value.(*ssa.Builtin); isB && bi.Name() == "len" {
				if mk, isMk := core.Canon(lc.Call.Args[0]).(*ssa.MakeSlice); isMk {
					v = core.Canon(core.StripConv(mk.Len))
				}
			}
		}
		p, ok := v.(*ssa.Parameter)
		if !ok {
			return 0, false
		}
		for i, fp := range f.Params {
			if fp == p {
				if idx >= 0 && idx != i {
					return 0, false
				}
				idx = i
			}
		}
	}
	return idx, idx >= 0
}

// helperDerivesFromParam: id names a function of the package with one string
// parameter which it hands to Parse or MakeReader.
func helperDerivesFromParam(p *packages.Package, id *ast.Ident) bool {
	fobj, _ := p.TypesInfo.Uses[id].(*types.Func)
	if fobj == nil || fobj.Pkg() != p.Types {
		return false
	}
	for _, f := range p.Syntax {
		for _, d := range f.Decls {
			fd, ok := d.(*ast.FuncDecl)
			if !ok || fd.Body == nil || p.TypesInfo.Defs[fd.Name] != fobj {
				continue
			}
			if fd.Type.Params == nil || len(fd.Type.Params.List) != 1 || len(fd.Type.Params.List[0].Names) != 1 {
				return false
			}
			param := p.TypesInfo.Defs[fd.Type.Params.List[0].Names[0]]
			found := false
			ast.Inspect(fd.Body, func(n ast.Node) bool {
				call, ok := n.(*ast.CallExpr)
				if !ok || len(call.Args) != 1 {
					return true
				}
				name := ""
				switch f := call.Fun.(type) {
				case *ast.Ident:
					name = f.Name
				case *ast.SelectorExpr:
					name = f.Sel.Name
				}
				if name != "Parse" && name != "MakeReader" {
					return true
				}
				if a, ok := call.Args[0].(*ast.Ident); ok && p.TypesInfo.ObjectOf(a) == param {
					found = true
				}
				return true
			})
			return found
		}
	}
	return false
}
