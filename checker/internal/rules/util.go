package rules

import (
	"fmt"
	"go/token"
	"go/types"
	"strings"

	"golang.org/x/tools/go/ssa"

	"qicheck/internal/core"
)

// isFieldOf reports whether v is (a load of / the address of) field fld of
// some struct value, i.e. its access path ends in fld.
func isFieldOf(v ssa.Value, fld *types.Var) bool {
	if fld == nil {
		return false
	}
	p := core.AccessPath(v)
	return len(p.Fields) > 0 && p.Fields[len(p.Fields)-1] == fld
}

// successReturn reports whether r returns the nil constant as its error
// result (last result of type error).
func successReturn(r *ssa.Return) bool {
	if len(r.Results) == 0 {
		return true
	}
	last := core.RetVal(r, len(r.Results)-1)
	if !core.IsErrorType(r.Results[len(r.Results)-1].Type()) {
		return true
	}
	return core.IsNilConst(last)
}

// errorReturn reports whether r certainly returns a non-nil error: the error
// operand is the result of fmt.Errorf / errors.New, a package-level error
// variable, or a value the function tested != nil on the way (not decided
// here: only the first forms are recognised).
func errorReturnConst(r *ssa.Return) bool {
	if len(r.Results) == 0 {
		return false
	}
	last := core.Strip(core.RetVal(r, len(r.Results)-1))
	if !core.IsErrorType(r.Results[len(r.Results)-1].Type()) {
		return false
	}
	switch x := last.(type) {
	case *ssa.Call:
		if f := x.Call.StaticCallee(); f != nil {
			n := core.FuncKey(f)
			return n == "fmt.Errorf" || n == "errors.New"
		}
	case *ssa.UnOp:
		if x.Op == token.MUL {
			if _, ok := x.X.(*ssa.Global); ok {
				return true
			}
		}
	}
	return false
}

// callsNamed lists the calls in fn (not in nested literals) to a method or
// function with the given name.
func callsNamed(fn *ssa.Function, name string) []ssa.CallInstruction {
	var out []ssa.CallInstruction
	for _, c := range core.Calls(fn) {
		cc := c.Common()
		if cc.IsInvoke() {
			if cc.Method.Name() == name {
				out = append(out, c)
			}
			continue
		}
		if f := cc.StaticCallee(); f != nil && f.Name() == name {
			out = append(out, c)
		}
	}
	return out
}

// mapWrites lists MapUpdate and delete() instructions of fn whose map operand
// is field fld.
func mapWrites(fn *ssa.Function, fld *types.Var) (updates []*ssa.MapUpdate, deletes []*ssa.Call) {
	for _, b := range fn.Blocks {
		for _, in := range b.Instrs {
			switch x := in.(type) {
			case *ssa.MapUpdate:
				if isFieldOf(x.Map, fld) {
					updates = append(updates, x)
				}
			case *ssa.Call:
				if bi, ok := x.Call.Value.(*ssa.Builtin); ok && bi.Name() == "delete" && len(x.Call.Args) == 2 && isFieldOf(x.Call.Args[0], fld) {
					deletes = append(deletes, x)
				}
			}
		}
	}
	return
}

// mapLookups lists Lookup instructions on field fld.
func mapLookups(fn *ssa.Function, fld *types.Var) []*ssa.Lookup {
	var out []*ssa.Lookup
	for _, b := range fn.Blocks {
		for _, in := range b.Instrs {
			if x, ok := in.(*ssa.Lookup); ok && isFieldOf(x.X, fld) {
				out = append(out, x)
			}
		}
	}
	return out
}

// okOf returns a predicate recognising the comma-ok result of lookup lk.
func okOf(lk ssa.Value) func(ssa.Value) bool {
	return func(v ssa.Value) bool {
		// also through a named result or another multi-store cell whose reaching store is unique
		e, ok := core.ResolveLoad(core.Canon(v)).(*ssa.Extract)
		return ok && e.Tuple == lk && e.Index == 1
	}
}

// valueOf returns a predicate recognising the value result of lookup lk.
func valueOfLookup(lk *ssa.Lookup, v ssa.Value) bool {
	v = core.ResolveLoad(core.Canon(v))
	if lk.CommaOk {
		e, ok := v.(*ssa.Extract)
		return ok && e.Tuple == lk && e.Index == 0
	}
	return v == ssa.Value(lk)
}

// srcFuncsOfPkg returns the non-test source functions declared in package rel
// exactly (not sub-packages), including literals.
func srcFuncsOfPkg(c *core.Ctx, rel string) []*ssa.Function {
	var out []*ssa.Function
	for _, fn := range c.RepoFuncs(rel) {
		if fn.Pkg.Pkg.Path() != core.Module+"/"+rel || c.IsTestFile(fn) {
			continue
		}
		out = append(out, fn)
	}
	return out
}

// isGenerated reports whether fn is declared in a *_gen.go file.
func isGenerated(c *core.Ctx, fn *ssa.Function) bool {
	for fn.Parent() != nil {
		fn = fn.Parent()
	}
	p := fn.Pos()
	if !p.IsValid() {
		return false
	}
	f := c.Fset.Position(p).Filename
	return len(f) > 7 && (f[len(f)-7:] == "_gen.go")
}

// loopHeaderOf returns the innermost loop header (a block with a back edge)
// whose loop contains instruction in, or nil.
func loopHeaderOf(in ssa.Instruction) *ssa.BasicBlock {
	b := in.Block()
	fn := b.Parent()
	var best *ssa.BasicBlock
	for _, h := range fn.Blocks {
		back := false
		for _, p := range h.Preds {
			if h.Dominates(p) {
				back = true
			}
		}
		if !back || !h.Dominates(b) {
			continue
		}
		// b is in the loop if it can reach h
		reach := false
		if b == h {
			reach = true
		} else {
			r := core.ReachFrom(core.After(in), nil, nil)
			if len(h.Instrs) > 0 && r.Has(h.Instrs[0]) {
				reach = true
			}
		}
		if !reach {
			continue
		}
		if best == nil || best.Dominates(h) {
			best = h
		}
	}
	return best
}

// earlyReturnAfter reports a return reachable from just after `in` without
// going back through the header of the loop containing `in`.
func earlyReturnAfter(in ssa.Instruction) *ssa.Return {
	h := loopHeaderOf(in)
	if h == nil {
		return nil
	}
	r := core.ReachFrom(core.After(in), func(x ssa.Instruction) bool { return x.Block() == h }, nil)
	for _, ret := range core.Returns(in.Parent()) {
		if r.Has(ret) {
			return ret
		}
	}
	return nil
}

// leavesLoopEarly: from the point after `in` (inside a loop body) some
// instruction outside the loop is reachable without passing the loop header
// again: a break (or return) abandons the remaining iterations.  Returns the
// first such instruction, nil if none.
func leavesLoopEarly(in ssa.Instruction) ssa.Instruction {
	h := loopHeaderOf(in)
	if h == nil {
		return nil
	}
	// blocks of the loop: those from which the header is reachable and that the header dominates
	inLoop := map[*ssa.BasicBlock]bool{h: true}
	for _, b := range in.Parent().Blocks {
		if !h.Dominates(b) || len(b.Instrs) == 0 {
			continue
		}
		r := core.ReachFrom(core.Point{B: b, I: 0}, nil, nil)
		if len(h.Instrs) > 0 && r.Has(h.Instrs[0]) {
			inLoop[b] = true
		}
	}
	r := core.ReachFrom(core.After(in), func(x ssa.Instruction) bool { return x.Block() == h }, nil)
	for _, b := range in.Parent().Blocks {
		if inLoop[b] || len(b.Instrs) == 0 {
			continue
		}
		if r.Has(b.Instrs[0]) {
			return b.Instrs[0]
		}
	}
	return nil
}

// guardedUp: every path to target crosses an edge establishing m, where the
// guard may also have been established by the callers of an unexported helper
// (the helper is only entered through call sites that are themselves guarded).
func guardedUp(c *core.Ctx, fn *ssa.Function, target ssa.Instruction, m core.EdgeMatcher) bool {
	return guardedUpDepth(c, fn, target, m, 0)
}

func guardedUpDepth(c *core.Ctx, fn *ssa.Function, target ssa.Instruction, m core.EdgeMatcher, depth int) bool {
	if core.Guarded(fn, target, m) {
		return true
	}
	if depth > 3 || !isPrivateHelper(c, fn) {
		return false
	}
	sites, _ := c.CallSites()
	ss := sites[fn]
	if len(ss) == 0 {
		return false
	}
	for _, site := range ss {
		if c.IsTestFile(site.Parent()) {
			continue
		}
		if _, isGo := site.(*ssa.Go); isGo {
			return false
		}
		if !guardedUpDepth(c, site.Parent(), site.(ssa.Instruction), m, depth+1) {
			return false
		}
	}
	return true
}

// isPrivateHelper: an unexported function or method of the repository that is
// only ever called statically (never stored, never reachable through an
// interface of the repository).
func isPrivateHelper(c *core.Ctx, fn *ssa.Function) bool {
	if fn == nil || fn.Parent() != nil || fn.Object() == nil || fn.Object().Exported() {
		return false
	}
	_, taken := c.CallSites()
	if taken[fn] {
		return false
	}
	if fn.Signature.Recv() != nil && implementsSomeInterface(c, fn) {
		return false
	}
	return true
}

// privateCallers returns the functions from which helper fn is (transitively,
// through private helpers) called; fn itself included.
func unitOf(c *core.Ctx, root *ssa.Function) []*ssa.Function {
	out := []*ssa.Function{root}
	seen := map[*ssa.Function]bool{root: true}
	for i := 0; i < len(out); i++ {
		for _, call := range core.Calls(out[i]) {
			f := core.StaticCallee(call)
			if f == nil || seen[f] || !isPrivateHelper(c, f) || f.Pkg != root.Pkg {
				continue
			}
			if _, isGo := call.(*ssa.Go); isGo {
				continue
			}
			seen[f] = true
			out = append(out, f)
		}
	}
	return out
}

// forwardedCall: the return forwards the error result of a call to a function
// with a body (return h(x)); nil otherwise.
func forwardedCall(r *ssa.Return) *ssa.Call {
	if len(r.Results) == 0 {
		return nil
	}
	last := core.Canon(core.RetVal(r, len(r.Results)-1))
	if !core.IsErrorType(r.Results[len(r.Results)-1].Type()) {
		return nil
	}
	call, _ := core.CallResult(last)
	if call == nil {
		return nil
	}
	if f := call.Call.StaticCallee(); f == nil || len(f.Blocks) == 0 {
		return nil
	}
	return call
}

// successGuarded: every success exit of fn is behind a branch establishing m.
// A success exit is a return with a nil error, or a return forwarding the
// results of a helper of the repository: then either the call itself is
// behind the guard, or every success exit of the helper is.  The matcher must
// not be tied to values of fn (it is re-applied inside the helper).  n counts
// the success exits seen.
func successGuarded(c *core.Ctx, fn *ssa.Function, m core.EdgeMatcher, depth int) (ok bool, n int) {
	ok = true
	for _, ret := range core.Returns(fn) {
		if successReturn(ret) {
			n++
			if !core.Guarded(fn, ret, m) {
				ok = false
			}
			continue
		}
		if returnsTestedError(fn, ret) {
			continue // `if err != nil { return nil, err }`: a failure handed on, not a forwarded outcome
		}
		call := forwardedCall(ret)
		if call == nil || depth > 2 {
			continue
		}
		h := call.Call.StaticCallee()
		if !inRepo(h) {
			continue // not a function of the repository: its error is an error
		}
		if core.Guarded(fn, call, m) {
			n++
			continue
		}
		hok, hn := successGuarded(c, h, m, depth+1)
		n += hn
		if !hok {
			ok = false
		}
	}
	return ok, n
}

// inRepo: fn is a function of the repository (not of a dependency).
func inRepo(fn *ssa.Function) bool {
	if fn == nil {
		return false
	}
	if fn.Pkg == nil {
		if fn.Parent() != nil {
			return inRepo(fn.Parent())
		}
		return false
	}
	return strings.HasPrefix(fn.Pkg.Pkg.Path(), core.Module)
}

// fieldInits lists the values fn stores into field fld: direct stores in fn,
// and arguments of calls to constructors of the repository that store the
// corresponding parameter into fld.
func fieldInits(fn *ssa.Function, fld *types.Var) []ssa.Value {
	var out []ssa.Value
	if fn == nil || fld == nil {
		return out
	}
	for _, b := range fn.Blocks {
		for _, in := range b.Instrs {
			switch x := in.(type) {
			case *ssa.Store:
				if isFieldOf(x.Addr, fld) {
					out = append(out, x.Val)
				}
			case *ssa.Call:
				g := x.Call.StaticCallee()
				if g == nil || g == fn || !inRepo(g) {
					continue
				}
				for _, gb := range g.Blocks {
					for _, gin := range gb.Instrs {
						st, ok := gin.(*ssa.Store)
						if !ok || !isFieldOf(st.Addr, fld) {
							continue
						}
						if p, ok := core.Canon(st.Val).(*ssa.Parameter); ok {
							for i, gp := range g.Params {
								if gp == p && i < len(x.Call.Args) {
									out = append(out, x.Call.Args[i])
								}
							}
						}
					}
				}
			}
		}
	}
	return out
}

// exclusiveUnit: root and the private helpers that are called only from
// within the unit (never from elsewhere, never with `go`): code that runs
// exactly when, and as part of, root.
func exclusiveUnit(c *core.Ctx, root *ssa.Function) map[*ssa.Function]bool {
	in := map[*ssa.Function]bool{}
	for _, f := range unitOf(c, root) {
		in[f] = true
	}
	sites, _ := c.CallSites()
	owner := func(f *ssa.Function) *ssa.Function {
		for f != nil && f.Parent() != nil {
			f = f.Parent()
		}
		return f
	}
	for changed := true; changed; {
		changed = false
		for f := range in {
			if f == root {
				continue
			}
			for _, site := range sites[f] {
				if c.IsTestFile(site.Parent()) {
					continue
				}
				_, isGo := site.(*ssa.Go)
				if isGo || !in[owner(site.Parent())] {
					delete(in, f)
					changed = true
					break
				}
			}
		}
	}
	return in
}

// ruleMailboxSerial: the goroutine that drains an object's mailbox handles one
// mail at a time: the Receiver is invoked by a plain call inside the receive
// loop, the mailbox starts exactly one goroutine, and that goroutine starts no
// other.  Per-object serialisation is what orders property writes and
// directory operations.
func ruleMailboxSerial(c *core.Ctx, rule string) {
	fn := c.Func("bus", "", "NewMailBox")
	if fn == nil {
		// by role: a function of package bus returning the MailBox type
		for _, f := range srcFuncsOfPkg(c, "bus") {
			if f.Parent() == nil && f.Signature.Results().Len() == 1 && core.TypeIs(f.Signature.Results().At(0).Type(), "bus", "MailBox") && len(f.Params) == 1 {
				fn = f
			}
		}
	}
	if fn == nil {
		c.Undecided(rule, "bus.NewMailBox", token.NoPos, "anchor not found")
		return
	}
	ruleSerialDrain(c, rule, fn)
}

// ruleSerialDrain: fn starts exactly one goroutine that hands the messages of
// a queue to a Receiver one at a time (plain call in the receive loop, no
// further goroutine).
func ruleSerialDrain(c *core.Ctx, rule string, fn *ssa.Function) {
	key := core.FuncKey(fn)
	var gos []*ssa.Go
	for _, call := range core.Calls(fn) {
		if g, ok := call.(*ssa.Go); ok {
			gos = append(gos, g)
		}
	}
	if len(gos) != 1 || loopHeaderOf(gos[0]) != nil {
		c.Fail(rule, key+"/one-goroutine", fn.Pos(), fmt.Sprintf("%d goroutines are started per queue (expected exactly one, outside any loop): messages of one object are handled concurrently", len(gos)))
		return
	}
	var g *ssa.Function
	switch v := gos[0].Call.Value.(type) {
	case *ssa.MakeClosure:
		g, _ = v.Fn.(*ssa.Function)
	case *ssa.Function:
		g = v
	}
	if g == nil {
		c.Undecided(rule, key+"/one-goroutine", gos[0].Pos(), "cannot resolve the mailbox goroutine")
		return
	}
	c.Pass(rule, key+"/one-goroutine", gos[0].Pos(), "one goroutine per mailbox")
	bad := ""
	nRecv := 0
	var handlings []ssa.Instruction
	var walk func(f *ssa.Function, depth int)
	walk = func(f *ssa.Function, depth int) {
		for _, call := range core.Calls(f) {
			cc := call.Common()
			if _, isGo := call.(*ssa.Go); isGo {
				bad = "the goroutine draining the queue starts another goroutine (at " + c.Pos(call.Pos()) + "): two messages of one object are then handled concurrently (validate/save/notify of two writes interleave, subscribers see different orders), and a goroutine started in a range loop shares the loop variable (go.mod says go 1.13): one message is handled twice and another never"
			}
			isHandling := cc.IsInvoke() && cc.Method.Name() == "Receive"
			if !cc.IsInvoke() && cc.StaticCallee() == nil {
				// a consumer handed to fn as a function value (AddHandler's Consumer)
				if pr, ok := core.Canon(cc.Value).(*ssa.Parameter); ok && pr.Parent() == fn {
					isHandling = true
				} else if ok && pr.Parent() == g && f == g {
					// the goroutine is a named function that receives the consumer as an argument
					for i, gp := range g.Params {
						if gp == pr && i < len(gos[0].Call.Args) {
							if ap, isP := core.Canon(gos[0].Call.Args[i]).(*ssa.Parameter); isP && ap.Parent() == fn {
								isHandling = true
							}
						}
					}
				}
			}
			if !isHandling && f == g {
				// the handling of one mail in a private helper (deliver(r, mail)): the helper
				// invokes the Receiver once, by a plain call, outside any loop, and starts nothing
				if h := cc.StaticCallee(); h != nil && h != g && isPrivateHelper(c, h) && handlesOneMail(h) {
					isHandling = true
				}
			}
			if isHandling {
				nRecv++
				if f == g {
					handlings = append(handlings, call.(ssa.Instruction))
				}
				if _, plain := call.(*ssa.Call); !plain {
					bad = "the Receiver is not invoked by a plain call"
				}
				if loopHeaderOf(call.(ssa.Instruction)) == nil && f == g {
					bad = "the Receiver is not invoked from the receive loop"
				}
			}
		}
		if depth < 2 {
			for _, a := range core.AnonFuncs(f) {
				walk(a, depth+1)
			}
		}
	}
	walk(g, 0)
	// each mail is handed over once: after the Receiver was invoked, it is not
	// invoked again before the next mail is taken from the queue
	takesMail := func(x ssa.Instruction) bool {
		switch y := x.(type) {
		case *ssa.UnOp:
			return y.Op == token.ARROW
		case *ssa.Select, *ssa.Next:
			return true
		}
		return false
	}
	for _, h1 := range handlings {
		r := core.ReachFrom(core.After(h1), takesMail, nil)
		for _, h2 := range handlings {
			if r.Has(h2) && bad == "" {
				bad = "after the Receiver was invoked for a mail it can be invoked again (at " + c.Pos(h2.Pos()) + ") before the next mail is taken from the queue: a method whose answer could not be written, or that returned an error, runs a second time for one call"
			}
		}
	}
	// the queue is drained: the goroutine does not choose between the queue and another
	// channel (select takes any ready case: what was accepted into the queue is then
	// abandoned at random once the other channel is ready, e.g. closed)
	for _, f := range core.AnonFuncs(g) {
		for _, b := range f.Blocks {
			for _, in := range b.Instrs {
				if sel, ok := in.(*ssa.Select); ok && len(sel.States) >= 2 && bad == "" {
					nrecv := 0
					for _, st := range sel.States {
						if st.Dir == types.RecvOnly {
							nrecv++
						}
					}
					if nrecv >= 2 {
						bad = "the goroutine draining the queue selects between the queue and another channel (at " + c.Pos(sel.Pos()) + "): select does not prefer the queue, so messages already accepted into it are dropped at random once the other channel is ready (a handler being closed loses what it had been given)"
					}
				}
			}
		}
	}
	if nRecv == 0 && bad == "" {
		bad = "the mailbox goroutine never hands a mail to the Receiver"
	}
	c.Check(bad == "", rule, key+"/serial", g.Pos(), "each mail is handed to the Receiver by a plain call in the receive loop; no other goroutine is started", bad)
}

// lookupHelper describes a private accessor that looks key up in a map field
// under its own lock and hands back the result: v, ok := s.get(id).
type lookupHelper struct {
	call *ssa.Call     // the call in the caller
	h    *ssa.Function // the accessor
	lk   *ssa.Lookup   // the comma-ok lookup inside it
	vi   int           // result index carrying the value found (-1 if none)
	bi   int           // result index carrying ok
}

// isOK / isVal recognise, in the caller, the ok flag and the value found.
func (l *lookupHelper) isOK(v ssa.Value) bool {
	cr, idx := core.CallResult(core.Canon(v))
	return cr == l.call && idx == l.bi
}

func (l *lookupHelper) isVal(v ssa.Value) bool {
	cr, idx := core.CallResult(core.Canon(v))
	return cr == l.call && idx == l.vi && l.vi >= 0
}

// findLookupHelper: fn calls a helper of its package that performs a comma-ok
// lookup in field fld with one of its own parameters as the key and returns
// the lookup's ok (true only when found) and optionally the value found.
func findLookupHelper(c *core.Ctx, fn *ssa.Function, fld *types.Var) *lookupHelper {
	for _, call := range core.Calls(fn) {
		cv, ok := call.(*ssa.Call)
		if !ok {
			continue
		}
		h := core.StaticCallee(call)
		if h == nil || h == fn || !inRepo(h) || len(h.Blocks) == 0 || h.Pkg != fn.Pkg {
			continue
		}
		for _, lk := range mapLookups(h, fld) {
			if !lk.CommaOk {
				continue
			}
			if _, isParam := core.Canon(lk.Index).(*ssa.Parameter); !isParam {
				continue
			}
			res := h.Signature.Results()
			out := &lookupHelper{call: cv, h: h, lk: lk, vi: -1, bi: -1}
			for i := 0; i < res.Len(); i++ {
				allOK, allVal := true, true
				for _, r := range core.Returns(h) {
					rv := core.ResolveLoad(core.RetVal(r, i))
					if !okOf(lk)(rv) {
						if b, isConst := core.ConstBool(rv); !isConst || (b && !core.Guarded(h, r, core.IsTrue(okOf(lk)))) {
							allOK = false
						}
					}
					if !valueOfLookup(lk, rv) && !core.IsNilConst(core.Canon(rv)) {
						allVal = false
					}
				}
				if b, isB := res.At(i).Type().Underlying().(*types.Basic); isB && b.Kind() == types.Bool && allOK {
					out.bi = i
				} else if allVal {
					out.vi = i
				}
			}
			if out.bi >= 0 {
				return out
			}
		}
	}
	return nil
}

// keyArg: the argument of the helper call that becomes the key of the lookup.
func (l *lookupHelper) keyArg() ssa.Value {
	p, _ := core.Canon(l.lk.Index).(*ssa.Parameter)
	for i, hp := range l.h.Params {
		if hp == p && i < len(l.call.Call.Args) {
			return l.call.Call.Args[i]
		}
	}
	return nil
}

// handlesOneMail: h invokes Receive exactly once, by a plain call outside any
// loop, and starts no goroutine.
func handlesOneMail(h *ssa.Function) bool {
	n := 0
	for _, g := range core.AnonFuncs(h) {
		for _, call := range core.Calls(g) {
			if _, isGo := call.(*ssa.Go); isGo {
				return false
			}
			cc := call.Common()
			if cc.IsInvoke() && cc.Method.Name() == "Receive" {
				if _, plain := call.(*ssa.Call); !plain || g != h || loopHeaderOf(call.(ssa.Instruction)) != nil {
					return false
				}
				n++
			}
		}
	}
	return n == 1
}
