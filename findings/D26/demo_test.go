// Copy this file into bus/session/ of the qiloop tree (package session_test).
//
//   cd <qiloop> && GOPROXY=off GOSUMDB=off GOTOOLCHAIN=local \
//     go test -vet=off -count=1 -run TestSeeded -timeout 120s ./bus/session/
//
// TestSeededStalledReader: one authenticated client floods metaObject
// calls (action 2) to service 1 / object 1 (the service directory every
// server hosts) and never reads its socket. A fresh client then calls
// the same method of the same object with a 5 s budget.
//
// TestSeededStalledReaderControl: same probe, no hostile client.
package session_test

import (
	"bytes"
	"encoding/binary"
	"fmt"
	gonet "net"
	"os"
	"regexp"
	"runtime"
	"strings"
	"syscall"
	"testing"
	"time"
	"unsafe"

	"github.com/lugu/qiloop/bus"
	dir "github.com/lugu/qiloop/bus/directory"
	"github.com/lugu/qiloop/bus/net"
	"github.com/lugu/qiloop/bus/util"
	"github.com/lugu/qiloop/type/object"
)

const (
	seededService = 1 // service directory
	seededObject  = 1 // its main object
	probeBudget   = 5 * time.Second
)

// probeResult is what the well-behaved client observed.
type probeResult struct {
	stage   string // last stage reached
	err     error
	elapsed time.Duration
	methods int
}

// probe connects a fresh client with the project's client API
// (SelectEndPoint authenticates against service 0, which the hostile
// client does not flood) and calls metaObject on service 1 object 1.
func probe(addr string, stage chan<- string) probeResult {
	start := time.Now()
	stage <- "connect+authenticate (service 0)"
	_, channel, err := bus.SelectEndPoint([]string{addr}, "nao", "nao")
	if err != nil {
		return probeResult{"authenticate", err, time.Since(start), 0}
	}
	defer channel.EndPoint().Close()
	client := bus.NewClient(channel)
	stage <- fmt.Sprintf("call metaObject on service %d object %d",
		seededService, seededObject)
	meta, err := bus.GetMetaObject(client, seededService, seededObject)
	if err != nil {
		return probeResult{"metaObject", err, time.Since(start), 0}
	}
	return probeResult{"done", nil, time.Since(start), len(meta.Methods)}
}

// runProbe runs probe in a goroutine and waits at most budget for it.
// done is returned so that the caller can keep waiting afterwards.
func runProbe(addr string, budget time.Duration) (res probeResult, ok bool,
	lastStage string, done chan probeResult) {

	done = make(chan probeResult, 1)
	stage := make(chan string, 10)
	go func() { done <- probe(addr, stage) }()
	timer := time.NewTimer(budget)
	defer timer.Stop()
	for {
		select {
		case s := <-stage:
			lastStage = s
		case res = <-done:
			return res, true, lastStage, done
		case <-timer.C:
			// pick up a pending stage notification, if any.
			select {
			case s := <-stage:
				lastStage = s
			default:
			}
			return res, false, lastStage, done
		}
	}
}

// unreadBytes returns the number of bytes queued in the receive buffer
// of conn (what the server managed to write and nobody read).
func unreadBytes(conn gonet.Conn) int {
	sc, ok := conn.(syscall.Conn)
	if !ok {
		return -1
	}
	raw, err := sc.SyscallConn()
	if err != nil {
		return -1
	}
	var n int32 = -1
	raw.Control(func(fd uintptr) {
		syscall.Syscall(syscall.SYS_IOCTL, fd, syscall.TIOCINQ,
			uintptr(unsafe.Pointer(&n)))
	})
	return int(n)
}

// dialHostile opens a raw connection and authenticates by writing the
// authenticate call (service 0, object 0, action 8) by hand. It reads
// exactly one message (the authentication reply) and nothing after.
func dialHostile(t *testing.T, addr string) gonet.Conn {
	var conn gonet.Conn
	var err error
	if strings.HasPrefix(addr, "unix://") {
		conn, err = gonet.Dial("unix", strings.TrimPrefix(addr, "unix://"))
	} else {
		conn, err = gonet.Dial("tcp", strings.TrimPrefix(addr, "tcp://"))
	}
	if err != nil {
		t.Fatalf("hostile: dial: %s", err)
	}
	var payload bytes.Buffer
	if err = bus.WriteCapabilityMap(bus.ClientCap("nao", "nao"), &payload); err != nil {
		t.Fatalf("hostile: capability map: %s", err)
	}
	hdr := net.NewHeader(net.Call, 0, 0, object.AuthenticateActionID, 1)
	msg := net.NewMessage(hdr, payload.Bytes())
	if err = msg.Write(conn); err != nil {
		t.Fatalf("hostile: send authenticate: %s", err)
	}
	conn.SetReadDeadline(time.Now().Add(5 * time.Second))
	var reply net.Message
	if err = reply.Read(conn); err != nil {
		t.Fatalf("hostile: read authenticate reply: %s", err)
	}
	conn.SetReadDeadline(time.Time{})
	if reply.Header.Type != net.Reply {
		t.Fatalf("hostile: authentication refused: %v", reply.Header)
	}
	return conn
}

// callFrames returns n well-formed metaObject calls (action 2) to
// service 1 object 1, with message ids starting at *id.
func callFrames(n int, id *uint32) []byte {
	var buf bytes.Buffer
	for i := 0; i < n; i++ {
		hdr := net.NewHeader(net.Call, seededService, seededObject,
			object.MetaObjectMethodID, *id)
		*id++
		arg := make([]byte, 4)
		binary.LittleEndian.PutUint32(arg, seededObject)
		msg := net.NewMessage(hdr, arg)
		msg.Write(&buf)
	}
	return buf.Bytes()
}

const callFrameSize = net.HeaderSize + 4

// pacedFlood sends one call at a time and waits for its reply to show
// up in the (never read) receive buffer of conn before sending the
// next one. It returns the number of calls sent when a reply does not
// arrive anymore within idle: at that point the object is stuck
// writing that reply. It gives the smallest number of calls needed.
func pacedFlood(conn gonet.Conn, id *uint32, max int, idle time.Duration) (calls int, stalled bool) {
	for calls < max {
		before := unreadBytes(conn)
		if before < 0 {
			return calls, false // ioctl not available
		}
		conn.SetWriteDeadline(time.Now().Add(idle))
		if _, err := conn.Write(callFrames(1, id)); err != nil {
			return calls, true
		}
		calls++
		deadline := time.Now().Add(idle)
		for unreadBytes(conn) == before {
			if time.Now().After(deadline) {
				return calls, true
			}
			time.Sleep(100 * time.Microsecond)
		}
	}
	return calls, false
}

// burstFlood writes calls to the same object as fast as possible until
// the server stops draining the socket (a write does not progress for
// idle) or until max calls were sent. It never reads.
func burstFlood(conn gonet.Conn, id *uint32, max int, idle time.Duration) (calls int, stalled bool) {
	sent := 0
	for calls < max {
		conn.SetWriteDeadline(time.Now().Add(idle))
		n, err := conn.Write(callFrames(256, id))
		sent += n
		calls = sent / callFrameSize
		if err != nil {
			ne, ok := err.(gonet.Error)
			return calls, ok && ne.Timeout()
		}
	}
	return calls, false
}

var goroutineHeader = regexp.MustCompile(`^goroutine \d+ \[`)

// dumpGoroutines returns the stacks of the goroutines whose trace
// contains one of the patterns.
func dumpGoroutines(patterns ...string) string {
	buf := make([]byte, 4<<20)
	buf = buf[:runtime.Stack(buf, true)]
	var out []string
	for _, g := range strings.Split(string(buf), "\n\n") {
		if !goroutineHeader.MatchString(g) {
			continue
		}
		for _, p := range patterns {
			if strings.Contains(g, p) {
				out = append(out, g)
				break
			}
		}
	}
	return strings.Join(out, "\n\n")
}

func newServer(t *testing.T) (string, bus.Server) {
	addr := util.NewUnixAddr()
	server, err := dir.NewServer(addr, bus.Yes{})
	if err != nil {
		t.Logf("unix socket %s failed (%s), falling back to TCP", addr, err)
		addr = "tcp://127.0.0.1:35817"
		server, err = dir.NewServer(addr, bus.Yes{})
		if err != nil {
			t.Fatal(err)
		}
	}
	return addr, server
}

func TestSeededStalledReaderControl(t *testing.T) {
	addr, server := newServer(t)
	defer server.Terminate()
	defer os.Remove(strings.TrimPrefix(addr, "unix://"))

	res, ok, stage, _ := runProbe(addr, probeBudget)
	if !ok {
		t.Fatalf("control: probe did not return within %s (stage: %s)",
			probeBudget, stage)
	}
	if res.err != nil {
		t.Fatalf("control: probe failed at %s: %s", res.stage, res.err)
	}
	t.Logf("control: no hostile client: metaObject of service %d object %d "+
		"answered in %s (%d methods)", seededService, seededObject,
		res.elapsed, res.methods)
}

func TestSeededStalledReader(t *testing.T) {
	addr, server := newServer(t)
	defer os.Remove(strings.TrimPrefix(addr, "unix://"))
	// server.Terminate() is not deferred: with a stalled mailbox the
	// clean-up itself might block. The process exits anyway.

	// sanity: the object answers before the attack.
	res, ok, stage, _ := runProbe(addr, probeBudget)
	if !ok || res.err != nil {
		t.Fatalf("before the attack: probe ok=%v stage=%s err=%v", ok, stage, res.err)
	}
	t.Logf("before the attack: probe answered in %s", res.elapsed)

	// hostile client: authenticate, flood one object, never read.
	hostile := dialHostile(t, addr)
	defer hostile.Close()
	id := uint32(2)
	start := time.Now()
	paced, stalled := pacedFlood(hostile, &id, 100000, time.Second)
	t.Logf("hostile, paced: after %d metaObject calls (%d bytes sent) the "+
		"next reply does not come out anymore (stalled=%v, %s); %d bytes "+
		"of replies sit unread in the hostile socket",
		paced, paced*callFrameSize, stalled,
		time.Since(start).Round(time.Millisecond), unreadBytes(hostile))
	start = time.Now()
	burst, wedged := burstFlood(hostile, &id, 2000000, 2*time.Second)
	t.Logf("hostile, burst: %d more calls (%d bytes) written in %s before "+
		"the server stopped reading this connection (write blocked=%v); "+
		"unread replies: %d bytes", burst, burst*callFrameSize,
		time.Since(start).Round(time.Millisecond), wedged, unreadBytes(hostile))

	// fresh well-behaved client, same object, 5 seconds.
	res, ok, stage, done := runProbe(addr, probeBudget)
	if ok {
		if res.err != nil {
			t.Fatalf("probe returned an error at %s after %s: %s",
				res.stage, res.elapsed, res.err)
		}
		t.Logf("probe answered in %s (%d methods): no stall", res.elapsed, res.methods)
		server.Terminate()
		return
	}

	// the probe is stuck: gather the evidence.
	dump := dumpGoroutines("bus.NewMailBox", "serviceImpl).Receive",
		"endPoint).process")
	t.Logf("STALL: probe still waiting after %s at stage %q.\n"+
		"hostile connection is open and idle; unread replies in its socket: %d bytes.\n"+
		"--- goroutines (mailboxes, per-connection consumers, readers) ---\n%s\n---",
		probeBudget, stage, unreadBytes(hostile), dump)

	// show that the stall lasts exactly as long as the hostile
	// connection: closing it releases the mailbox goroutine.
	closed := time.Now()
	hostile.Close()
	select {
	case res = <-done:
		t.Logf("after the hostile client closed its connection the probe "+
			"returned within %s (err=%v, total %s)",
			time.Since(closed).Round(time.Millisecond), res.err,
			res.elapsed.Round(time.Millisecond))
	case <-time.After(10 * time.Second):
		t.Logf("probe still blocked 10s after the hostile client disconnected")
	}
	t.Fatalf("one client stopped service %d object %d from serving others: "+
		"probe call did not return within %s (last stage: %s)",
		seededService, seededObject, probeBudget, stage)
}
