package space_test

// D27 (C14): a wrongly-typed client write must be refused and must leave the
// property as it was. Copy into examples/space/.

import (
	"testing"
	"time"

	"github.com/lugu/qiloop/bus"
	"github.com/lugu/qiloop/bus/directory"
	sess "github.com/lugu/qiloop/bus/session"
	"github.com/lugu/qiloop/bus/util"
	"github.com/lugu/qiloop/examples/space"
	"github.com/lugu/qiloop/type/value"
)

type d27Bomb struct{ helper space.BombSignalHelper }

func (b *d27Bomb) Activate(a bus.Activation, h space.BombSignalHelper) error {
	b.helper = h
	return h.UpdateDelay(10)
}
func (b *d27Bomb) OnTerminate()                {}
func (b *d27Bomb) OnDelayChange(d int32) error { return nil }

func TestSeededWronglyTypedWrite(t *testing.T) {
	addr := util.NewUnixAddr()
	server, err := directory.NewServer(addr, nil)
	if err != nil {
		t.Fatal(err)
	}
	defer server.Terminate()
	service, err := server.NewService("Bomb", space.BombObject(&d27Bomb{}))
	if err != nil {
		t.Fatal(err)
	}
	defer service.Terminate()
	connect := func() space.BombProxy {
		s, err := sess.NewSession(addr)
		if err != nil {
			t.Fatal(err)
		}
		p, err := s.Proxy("Bomb", 1)
		if err != nil {
			t.Fatal(err)
		}
		return space.MakeBomb(s, p)
	}
	writer, reader := connect(), connect()
	cancel, events, err := reader.SubscribeDelay()
	if err != nil {
		t.Fatal(err)
	}
	defer cancel()
	if err := writer.SetDelay(11); err != nil {
		t.Fatal(err)
	}
	select {
	case v := <-events:
		if v != 11 {
			t.Fatalf("event %d", v)
		}
	case <-time.After(2 * time.Second):
		t.Fatal("no event for the valid write")
	}
	// the property is declared "i" (int32): a string, a uint32, a float and a 64-bit integer are of another type
	for _, wrong := range []value.Value{value.String("abcd"), value.Uint(7), value.Float(1.5), value.Long(3)} {
		err := writer.SetProperty(value.String("delay"), wrong)
		if err == nil {
			t.Errorf("a write of signature %q into a property declared \"i\" was accepted", wrong.Signature())
		}
		got, gerr := reader.Property(value.String("delay"))
		if gerr != nil {
			t.Errorf("after the write of %q: read failed: %s", wrong.Signature(), gerr)
		} else if got.Signature() != "i" {
			t.Errorf("after the write of %q the property reads with signature %q instead of \"i\"", wrong.Signature(), got.Signature())
		}
		select {
		case v := <-events:
			t.Errorf("the wrongly-typed write of %q emitted a change event (%d)", wrong.Signature(), v)
		case <-time.After(200 * time.Millisecond):
		}
	}
	if d, err := reader.GetDelay(); err != nil || d != 11 {
		t.Errorf("typed read after the wrongly-typed writes: %d, %v (expected 11)", d, err)
	}
}
