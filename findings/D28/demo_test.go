package bus

// Demonstration of D28 (C13): a duplicate registration coming from the SAME
// connection was refused, but the refusal silently cancelled the registration
// that already existed: the handler created for the refused request was
// removed, its closer ran removeSignalUser(userID, from), and that found the
// user already registered under this id on this connection.
//
// Copy into bus/ (package bus) and run: go test -run TestD28 ./bus/

import (
	gonet "net"
	"testing"

	"github.com/lugu/qiloop/bus/net"
)

func TestD28DuplicateRegistrationKeepsTheFirst(t *testing.T) {
	a, b := gonet.Pipe()
	defer a.Close()
	defer b.Close()
	e := net.ConnEndPoint(a)
	from := NewContext(e)
	o := newSignalHandler()
	if err := o.addSignalUser(42, 100, 1, from); err != nil {
		t.Fatal(err)
	}
	if err := o.addSignalUser(42, 100, 2, from); err == nil {
		t.Fatal("duplicate registration accepted")
	}
	o.signalsMutex.RLock()
	n := len(o.signals)
	o.signalsMutex.RUnlock()
	if n != 1 {
		t.Fatalf("%d registrations left after a refused duplicate, expecting 1", n)
	}
}
