#!/bin/sh
# usage: batch.sh <file of prop|src|pkg|id|needs lines> [jobs]   -> logs in /tmp/f_<id>.log
J=${2:-5}
grep -v '^$' "$1" | xargs -d '\n' -P "$J" -I{} sh -c 'IFS="|"; set -- $1; /verif/selftest/file.sh "$1" "$2" "$3" "$4" "$5" > /tmp/f_$4.log 2>&1' _ {}
