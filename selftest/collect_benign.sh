#!/bin/sh
# usage: collect_benign.sh <round dir (/tmp/ben7)> <letter> <Cxx>...  — copies the agent's refactors into selftest/benign/
d=$1; l=$2; shift 2
for p in "$@"; do
  for k in 1 2 3 4; do
    if [ -f $d/$p/r$k/patch.diff ]; then
      cp $d/$p/r$k/patch.diff /verif/selftest/benign/$p-$l$k.diff
      [ -f $d/$p/r$k/README.md ] && cp $d/$p/r$k/README.md /verif/selftest/benign/$p-$l$k.md
      echo $p-$l$k
    fi
  done
done
