#!/usr/bin/env python3
"""Dev-time cross test (not a registered command): a seeded change applied ON TOP
of a behaviour-preserving refactor of the same property must still be caught.

The refactors of selftest/benign/ exercise the summaries that keep the rules
quiet (helpers, wrappers, tables); a summary that is too generous makes a rule
pass vacuously on the refactored code.  For every benign patch b of property X
and every seeded change m of X that still applies after b (plain `git apply`,
no fuzz), the check of X and of its related properties is run on b+m and must
report a violation.

  combo.py [Cxx ...]        properties to try (default all)
  MAXM=6 JOBS=12            mutants per refactor, parallel jobs

Scratch copies live under /tmp and are removed one by one."""
import glob, os, re, subprocess, sys, tempfile, shutil, concurrent.futures

VERIF = "/verif"
sys.path.insert(0, f"{VERIF}/selftest")
import run as R  # RELATED, OUTSIDE

Q = os.environ.get("QICHECK", f"{VERIF}/bin/qicheck")
MAXM = int(os.environ.get("MAXM", "6"))


def sh(cmd, cwd=None):
    return subprocess.run(cmd, shell=True, cwd=cwd, capture_output=True, text=True)


def one(benign):
    bid = os.path.basename(benign)[:-5]
    prop = bid.split("-")[0]
    muts = [d for d in sorted(glob.glob(f"{VERIF}/seeded/{prop}-m*/patch.diff"))
            if os.path.basename(os.path.dirname(d)) not in R.OUTSIDE]
    S = tempfile.mkdtemp(prefix="qicombo.", dir="/tmp")
    res = []
    try:
        os.makedirs(f"{S}/verif/evidence")
        sh(f"rsync -a --exclude .git /repo/ {S}/repo/ && cp {VERIF}/known_findings.txt {S}/verif/ && cd {S}/repo && git init -q . && git apply --whitespace=nowarn {benign}")
        n = 0
        # prefer the latest rounds (subtler changes) but take some of each
        for m in sorted(muts, key=lambda p: -int(re.search(r"-m(\d+)/", p).group(1))):
            if n >= MAXM:
                break
            mid = os.path.basename(os.path.dirname(m))
            if sh(f"git apply --check --whitespace=nowarn {m}", cwd=f"{S}/repo").returncode != 0:
                continue
            sh(f"git apply --whitespace=nowarn {m}", cwd=f"{S}/repo")
            caught, failed = [], False
            for p in R.RELATED.get(prop, [prop]):
                o = sh(f"{Q} -property {p} -tier quick -repo {S}/repo -verif {S}/verif")
                if "type errors in repository" in o.stdout + o.stderr:
                    failed = True
                    break
                if re.search(r"^VIOLATION property=", o.stdout, re.M):
                    caught.append(p)
                    break
            sh(f"git apply -R --whitespace=nowarn {m}", cwd=f"{S}/repo")
            if failed:
                continue
            n += 1
            res.append((bid, mid, caught))
    finally:
        shutil.rmtree(S, ignore_errors=True)
    return res


def main():
    props = set(sys.argv[1:])
    bs = [b for b in sorted(glob.glob(f"{VERIF}/selftest/benign/*.diff"))
          if not props or os.path.basename(b).split("-")[0] in props]
    tot = miss = 0
    with concurrent.futures.ThreadPoolExecutor(int(os.environ.get("JOBS", "12"))) as ex:
        for res in ex.map(one, bs):
            for bid, mid, caught in res:
                tot += 1
                if not caught:
                    miss += 1
                    print(f"MISS {bid} + {mid}", flush=True)
    print(f"combos tried: {tot}, missed: {miss}")


if __name__ == "__main__":
    main()
