#!/usr/bin/env python3
"""Confirms a seeded change produced by an independent sub-agent and files it
under /verif/seeded/<id>/.

usage: confirm.py <property> <src dir with patch.diff + demo> <demo package dir> <id> [needs...]

Steps (all in a scratch worktree of /repo outside /repo and /verif, removed at
the end): demo passes on the clean tree; patch applies; `go build ./...`; the
unedited suite passes with the patch; the demo fails with the patch.
"""
import json, os, shutil, subprocess, sys, tempfile

ENV = dict(os.environ, GOPROXY="off", GOSUMDB="off", GOTOOLCHAIN="local", GOFLAGS="-mod=readonly")
ENV.pop("GOWORK", None)

def run(cmd, cwd, timeout=900):
    p = subprocess.run(cmd, cwd=cwd, env=ENV, shell=True, capture_output=True, text=True, timeout=timeout)
    return p.returncode, (p.stdout + p.stderr)

def main():
    prop, src, pkgdir, mid = sys.argv[1:5]
    needs = " ".join(sys.argv[5:])
    wt = tempfile.mkdtemp(prefix="qiconfirm.", dir="/tmp")
    os.rmdir(wt)
    rc, out = run(f"git -C /repo worktree add -q --detach {wt} HEAD", "/")
    if rc != 0:
        sys.exit("worktree: " + out)
    res = {}
    try:
        demo = None
        for name in ("demo_test.go",):
            if os.path.exists(os.path.join(src, name)):
                demo = name
        is_prog = os.path.isdir(os.path.join(src, "demo"))
        def put_demo():
            if demo:
                shutil.copy(os.path.join(src, demo), os.path.join(wt, pkgdir, "zz_seeded_" + demo))
            if is_prog:
                shutil.copytree(os.path.join(src, "demo"), os.path.join(wt, "zz_seeded_demo"))
        def rm_demo():
            if demo:
                os.remove(os.path.join(wt, pkgdir, "zz_seeded_" + demo))
            if is_prog:
                shutil.rmtree(os.path.join(wt, "zz_seeded_demo"))
        def run_demo():
            if demo:
                return run(f"go test -vet=off -count=1 -run 'TestSeeded' -timeout 120s ./{pkgdir}/", wt, 300)
            return run("go run ./zz_seeded_demo", wt, 300)
        # 1. clean tree: demo passes
        put_demo()
        rc, out = run_demo()
        res["demo_passes_without"] = (rc == 0)
        clean_out = out[-600:]
        rm_demo()
        # 2. apply, build, suite
        rc, out = run(f"git apply --whitespace=nowarn {os.path.join(src, 'patch.diff')}", wt)
        res["applies"] = (rc == 0)
        if rc != 0:
            print(out)
        rc, out = run("go build ./...", wt)
        res["builds"] = (rc == 0)
        ok = True
        fails = ""
        for i in range(2):
            rc, out = run("go test -vet=off -count=1 -p 6 ./...", wt, 1500)
            if rc != 0:
                # timing-sensitive tests fail under machine load: a failing package
                # must pass three times in a row when run alone, otherwise the
                # suite is considered to fail with the patch
                pkgs = sorted({l.split()[1] for l in out.splitlines() if l.startswith("FAIL\t") and len(l.split()) > 1})
                fails += "\n".join(l for l in out.splitlines() if l.startswith("--- FAIL"))[:300]
                for pkg in pkgs:
                    for k in range(3):
                        rc2, out2 = run(f"go test -vet=off -count=1 -p 1 {pkg}", wt, 600)
                        if rc2 != 0:
                            ok = False
                if not pkgs:
                    ok = False
        res["suite_passes_with"] = ok
        if fails:
            res["suite_failures"] = fails
        # 3. demo fails with the patch
        put_demo()
        rc, out = run_demo()
        res["demo_fails_with"] = (rc != 0)
        res["demo_output_with"] = out[-700:]
        rm_demo()
    finally:
        run(f"git -C /repo worktree remove --force {wt}", "/")
        shutil.rmtree(wt, ignore_errors=True)
    good = all(res.get(k) for k in ("demo_passes_without", "applies", "builds", "suite_passes_with", "demo_fails_with"))
    print(json.dumps({k: v for k, v in res.items() if k != "demo_output_with"}, indent=1))
    if not good:
        print("NOT CONFIRMED", mid)
        if not res.get("demo_passes_without"):
            print(clean_out)
        sys.exit(1)
    dst = os.path.join("/verif/seeded", mid)
    os.makedirs(dst, exist_ok=True)
    shutil.copy(os.path.join(src, "patch.diff"), dst)
    if demo:
        shutil.copy(os.path.join(src, demo), dst)
    if is_prog:
        shutil.copytree(os.path.join(src, "demo"), os.path.join(dst, "demo"), dirs_exist_ok=True)
    if os.path.exists(os.path.join(src, "README.md")):
        shutil.copy(os.path.join(src, "README.md"), os.path.join(dst, "AGENT_README.md"))
    head = subprocess.run("git -C /repo rev-parse --short HEAD", shell=True, capture_output=True, text=True).stdout.strip()
    meta = {
        "id": mid,
        "property": prop,
        "origin": "independent sub-agent given only the property text and a scratch worktree",
        "needs_to_manifest": needs,
        "demo": {"file": demo or "demo/main.go", "copy_into": pkgdir, "run": f"go test -vet=off -count=1 -run TestSeeded ./{pkgdir}/" if demo else "go run ./demo"},
        "confirmed_at_repo_commit": head,
        "confirmed": {k: res[k] for k in ("demo_passes_without", "applies", "builds", "suite_passes_with", "demo_fails_with")},
        "ran": ["demo on clean worktree (pass)", "git apply patch.diff", "go build ./...", "go test -vet=off -count=1 ./... twice (pass)", "demo with patch (fail)"],
        "demo_failure_excerpt": res.get("demo_output_with", "")[-400:],
    }
    json.dump(meta, open(os.path.join(dst, "meta.json"), "w"), indent=1)
    print("CONFIRMED", mid, "->", dst)

main()
