#!/bin/sh
# usage: file.sh <Cxx> <agent out dir (…/mK)> <demo package dir> <new id> <needs…>
# confirm.py (files the change under seeded/<id>/ when confirmed) then try.sh with the
# property's own and related checks: prints which rules fire on first encounter.
prop=$1; src=$2; pkg=$3; id=$4; shift 4
python3 /verif/selftest/confirm.py "$prop" "$src" "$pkg" "$id" "$@" | tail -3
[ -f /verif/seeded/$id/patch.diff ] || exit 1
rel=$(python3 - "$prop" <<'PY'
import re,sys
s=open('/verif/selftest/run.py').read()
m=re.search(r'RELATED = \{(.*?)\n\}', s, re.S)
d=eval('{'+m.group(1)+'}')
print(' '.join(d.get(sys.argv[1],[sys.argv[1]])))
PY
)
echo "--- first encounter ($rel)"
/verif/selftest/try.sh /verif/seeded/$id/patch.diff $rel
