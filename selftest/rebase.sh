#!/bin/sh
# usage: rebase.sh <patch.diff>  — re-bases a recorded patch whose context no longer
# matches /repo (after a fix: commit there): applies it with reduced context on a
# scratch copy, checks that the result compiles, and rewrites the patch in place.
set -u
f=$1
S=$(mktemp -d /tmp/qrebase.XXXXXX)
trap 'rm -rf "$S"' EXIT
rsync -a --exclude .git /repo/ "$S/"
cd "$S" && git init -q . && git add -A >/dev/null && git -c user.email=a@b -c user.name=x commit -qm base >/dev/null
if git apply --check "$f" 2>/dev/null; then echo "applies as is: $f"; exit 0; fi
git apply -C1 "$f" 2>/dev/null || git apply -C0 "$f" 2>/dev/null || { echo "CANNOT REBASE $f"; exit 1; }
GOFLAGS=-mod=readonly GOPROXY=off GOSUMDB=off GOTOOLCHAIN=local go build ./... || { echo "REBASED PATCH DOES NOT COMPILE $f"; exit 1; }
git add -N . >/dev/null 2>&1
git diff > "$f.new" && mv "$f.new" "$f" && echo "rebased $f"
