#!/usr/bin/env python3
"""Dev-time self-test (not a registered command): applies every recorded change
(seeded changes under /verif/seeded/*/patch.diff, reverse patches of the fix:
commits under /verif/selftest/mutants/, benign refactors under
/verif/selftest/benign/*.diff) to a scratch copy of /repo, one at a time, runs
the named checks with -repo, and prints/writes the matrix.

  run.py            all
  run.py C06-m1 …   selected ids

A seeded/revert change must be CAUGHT by at least one check of its property
list; a benign change must leave every listed check silent.  Scratch copies
live under /tmp and are removed one by one."""
import json, os, subprocess, sys, glob, re, concurrent.futures

VERIF = "/verif"
ALL = ["C01","C02","C03","C04","C05","C06","C07","C08","C09","C10","C11","C12","C13","C14","C15","C16","C17","C18","C19","C20"]

# which checks are expected to be relevant for a change of property X (the property's own check first)
RELATED = {
 "C01": ["C01","C08","C10"], "C02": ["C02","C03"], "C03": ["C03","C02","C20"], "C04": ["C04","C12"], "C05": ["C05","C03","C13","C07"], "C06": ["C06"],
 "C07": ["C07","C12","C09"], "C08": ["C08"], "C09": ["C09","C07"], "C10": ["C10","C17"], "C11": ["C11","C17"],
 "C12": ["C12","C15","C16","C07"], "C13": ["C13","C14"], "C14": ["C14","C13"], "C15": ["C15","C12"], "C16": ["C16","C12"],
 "C17": ["C17","C12","C10","C11"], "C18": ["C18"], "C19": ["C19","C06","C11","C10"], "C20": ["C20"],
}
REVERTS = {  # fix commit -> property whose check must notice the reverted fix
 "32a069f":"C19","3c71be8":"C08","37b6fbf":"C08","8d47e94":"C02","9594b6b":"C03","7aed606":"C16","391a5ce":"C07",
 "e121ca3":"C20","3195165":"C16","27a14ab":"C04","1cb418a":"C15","7390dd3":"C16","90644c8":"C07","80e96fe":"C07","ac9ef16":"C04","ca1b8b0":"C18","d7a1e23":"C07","70af7d2":"C16","63a82dd":"C17","3239d3e":"C13","6a14ca9":"C07","d8d70b8":"C16","dcc80f1":"C16","c694536":"C18","b71ac75":"C06","034d280":"C14","8a7da2f":"C13",
}

# seeded changes outside the clauses the checks decide (DESIGN.md §9): recorded, expected to stay silent
OUTSIDE = {"C05-m1", "C05-m2", "C05-m3", "C05-m6", "C02-m9", "C12-m9", "C04-m11", "C05-m8", "C13-m10", "C05-m25"}

# benign refactors that are still reported (open false alarms, DESIGN.md §10): shown as "open", not hidden
OPEN_BENIGN = {
 # round 8 (maintenance for a new contributor): restructurings the rules do not follow yet, DESIGN.md §10
 "C01-y2", "C08-y2",            # ReadN/WriteN retry loop in a struct with methods
 "C03-y2",                      # the error of a decoding step carried in a result struct
 "C06-y2",                      # credentials bundled in a struct with a wellFormed flag
 "C15-y3",                      # per-connection state of server.handle in a struct with methods
}

def items():
    out = []
    for d in sorted(glob.glob(f"{VERIF}/seeded/*/patch.diff")):
        mid = os.path.basename(os.path.dirname(d))
        prop = mid.split("-")[0]
        out.append((mid, d, RELATED.get(prop, [prop]), "outside" if mid in OUTSIDE else "caught"))
    for c, prop in REVERTS.items():
        p = f"{VERIF}/selftest/mutants/revert-{c}.diff"
        if os.path.exists(p):
            out.append((f"revert-{c}", p, [prop], "caught"))
    # hand-made changes that exercise a rule no sub-agent's change reached yet: hand-<Cxx>-<name>.diff
    for d in sorted(glob.glob(f"{VERIF}/selftest/mutants/hand-*.diff")):
        hid = os.path.basename(d)[:-5]
        prop = hid.split("-")[1]
        out.append((hid, d, [prop], "caught"))
    for d in sorted(glob.glob(f"{VERIF}/selftest/benign/*.diff")):
        bid = os.path.basename(d)[:-5]
        prop = bid.split("-")[0]
        out.append((bid, d, ALL, "open" if bid in OPEN_BENIGN else "silent"))
    return out

def run_one(it):
    mid, patch, props, expect = it
    env = dict(os.environ, TIER=os.environ.get("TIER", "quick"), SKIPBUILD=os.environ.get("SKIPBUILD", "1"))
    p = subprocess.run([f"{VERIF}/selftest/try.sh", patch] + props, capture_output=True, text=True, env=env)
    caught = re.findall(r"^== (C\d+): CAUGHT", p.stdout, re.M)
    rules = sorted(set(re.findall(r"^(?:VIOLATION|UNDECIDED) (\S+)", p.stdout, re.M)))
    bad = "DOES NOT" in p.stdout
    return mid, expect, caught, rules, bad, p.stdout

def main():
    update = "--update" in sys.argv  # re-run the selected changes and rewrite their rows of MATRIX.md
    sel = set(a for a in sys.argv[1:] if a != "--update")
    its = [i for i in items() if not sel or i[0] in sel]
    rows = []
    with concurrent.futures.ThreadPoolExecutor(max_workers=int(os.environ.get("JOBS", "4"))) as ex:
        for mid, expect, caught, rules, bad, out in ex.map(run_one, its):
            ok = (not bad) and ((expect == "caught" and caught) or (expect == "silent" and not caught) or expect == "outside" or expect == "open")
            rows.append((mid, expect, caught, rules, ok, bad))
            print(f"{'ok  ' if ok else 'FAIL'} {mid:16s} expect={expect:6s} caught_by={','.join(caught) or '-':12s} {' '.join(rules)[:140]}")
            if not ok and expect == "silent":
                print(out[:1500])
    nbad = sum(1 for r in rows if not r[4])
    if not sel:
        with open(f"{VERIF}/seeded/MATRIX.md", "w") as f:
            f.write("# Which check catches which recorded change (generated by selftest/run.py)\n\n")
            f.write("| change | expected | caught by | rules firing |\n|---|---|---|---|\n")
            for mid, expect, caught, rules, ok, bad in rows:
                f.write(f"| {mid} | {expect} | {', '.join(caught) or '—'}{'' if ok else ' **UNEXPECTED**'} | {' '.join(rules)} |\n")
    if sel and update and os.path.exists(f"{VERIF}/seeded/MATRIX.md"):
        new = {mid: f"| {mid} | {expect} | {', '.join(caught) or '—'}{'' if ok else ' **UNEXPECTED**'} | {' '.join(rules)} |\n" for mid, expect, caught, rules, ok, bad in rows}
        lines = open(f"{VERIF}/seeded/MATRIX.md").read().splitlines(True)
        seen = set()
        for i, l in enumerate(lines):
            m = re.match(r"\| (\S+) \|", l)
            if m and m.group(1) in new:
                lines[i] = new[m.group(1)]
                seen.add(m.group(1))
        for mid in new:
            if mid not in seen:
                lines.append(new[mid])
        open(f"{VERIF}/seeded/MATRIX.md", "w").write("".join(lines))
    print(f"{len(rows)} changes, {nbad} unexpected")
    sys.exit(1 if nbad else 0)

if __name__ == "__main__":
    main()
