#!/bin/sh
# usage: try.sh <patch.diff> <Cxx> [<Cyy> ...]
# Applies one patch to a scratch copy of /repo (outside /repo and /verif), checks
# that it still compiles, runs the named checks against the copy with evidence
# redirected to a scratch directory, prints the non-OK lines, removes the copy.
# Exit 0 iff at least one check reported a VIOLATION.
set -u
patch=$1; shift
S=$(mktemp -d /tmp/qiscratch.XXXXXX)
trap 'rm -rf "$S"' EXIT
mkdir -p "$S/repo" "$S/verif/evidence"
rsync -a --exclude .git /repo/ "$S/repo/"
cp /verif/known_findings.txt "$S/verif/"
( cd "$S/repo" && git init -q . 2>/dev/null && git apply --whitespace=nowarn "$patch" ) || { echo "PATCH DOES NOT APPLY: $patch"; exit 2; }
# recorded changes were compiled when they were confirmed; SKIPBUILD=1 (set by run.py) skips the
# build, which links every example binary: a change that no longer type-checks makes qicheck fail
[ "${SKIPBUILD:-0}" = 1 ] || ( cd "$S/repo" && GOFLAGS=-mod=readonly GOPROXY=off GOSUMDB=off GOTOOLCHAIN=local go build ./... ) || { echo "MUTANT DOES NOT COMPILE"; exit 2; }
hit=1
Q=${QICHECK:-/verif/bin/qicheck}
if [ $# -gt 1 ] && [ "${TIER:-quick}" = quick ]; then
  # many properties: one load, every property in turn (dev-time mode of qicheck)
  out=$($Q -property all -repo "$S/repo" -verif "$S/verif" 2>&1)
  for p in "$@"; do
    seg=$(echo "$out" | awk -v P="$p" '/^qicheck property=/{cur=$2; sub("property=","",cur)} cur==P{print}')
    echo "$seg" | grep -E "^(VIOLATION|UNDECIDED) " | grep -v "^VIOLATION property=" | sed "s|$S/repo/||g" | cut -c1-400
    if echo "$seg" | grep -q "^VIOLATION property="; then hit=0; echo "== $p: CAUGHT"; else
      if echo "$seg" | grep -q "^summary:"; then echo "== $p: silent"; else hit=0; echo "== $p: CAUGHT (no report: analyser failed)"; echo "$out" | tail -5; fi
    fi
  done
  exit $hit
fi
for p in "$@"; do
  out=$($Q -property "$p" -tier "${TIER:-quick}" -repo "$S/repo" -verif "$S/verif" 2>&1)
  echo "$out" | grep -E "^(VIOLATION|UNDECIDED) " | grep -v "^VIOLATION property=" | sed "s|$S/repo/||g" | cut -c1-400
  if echo "$out" | grep -q "^VIOLATION property="; then hit=0; echo "== $p: CAUGHT"; else echo "== $p: silent"; fi
done
exit $hit
