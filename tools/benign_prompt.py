#!/usr/bin/env python3
"""Prompt for an independent sub-agent that produces behaviour-PRESERVING refactors of the
code implementing a property (used to test that the checks raise no false alarm)."""
import json, sys
pid = sys.argv[1]
rnd = sys.argv[2] if len(sys.argv) > 2 else ''
out = '/tmp/ben' + rnd + '/' + pid
wt = '/tmp/wt/b' + rnd + pid
for l in open('/verif/properties.jsonl'):
    p = json.loads(l)
    if p['id'] == pid:
        break
else:
    sys.exit("no such property")
extra = (", but spread the four changes over different files where the property involves several (helpers, secondary implementations such as the reflection-based codec, generated-code emitters, client side versus server side, shutdown and error paths), and make at least one change a combination of two refactorings (e.g. extract a helper AND switch the loop form)" if rnd == "3" else (", and for this round favour these kinds of change, wherever they can be done without changing behaviour: table-driven rewrites (a switch or if-chain replaced by a lookup table, or the reverse); an anonymous goroutine or closure turned into a named method or function (parameters instead of captured variables) and the reverse; accessor helpers that take the lock themselves; a loop rewritten with a different exit style (break / early return / flag / index found then used after the loop); error values wrapped or renamed; a struct split in two or two fields merged into a small struct; a function moved to a new file. Spread the four changes over different files, including helpers and secondary implementations (generated-code emitters, the reflection-based codec, the client side), and make each change touch 15-50 lines" if rnd == "4" else (', and for this round favour these kinds of change, wherever they can be done without changing behaviour: defensive code written in a different style from its surroundings (a bounds or nil check moved into a small predicate helper, min/clamp helpers, a len() test instead of a nil test or the reverse, an explicit and equivalent fast path for the empty case); decoding or encoding steps of handlers, proxies and other callers of the codecs moved into small private helpers, with or without an error result of their own, keeping every error handled exactly as before; a different way of returning results (named results instead of plain returns or the reverse, a small result struct, an out-parameter); make-then-index replaced by append or the reverse; values threaded through small adapter functions, method values or function-typed fields; a mutex-protected field accessed through getter/setter helpers. Spread the four changes over different files and go AWAY from the most central function of the property: its callers, adapters, constructors, the client side when the server side is central, helper packages. Make each change touch 15-50 lines' if rnd == "5" else (', and for this round favour these kinds of change, wherever they can be done without changing behaviour: modernisation and tidying that touches MANY small places at once rather than one function — error values wrapped with %w or given a sentinel where nobody compares them, `interface{}` helper signatures narrowed to concrete types, value receivers turned into pointer receivers (or the reverse) where the method set and copies do not matter, small named types introduced for identifiers (type handlerID int, type actionID uint32) with conversions at the boundaries, struct fields grouped into an embedded struct, constants grouped into typed const blocks, switch statements on types or kinds reordered or merged, duplicated code across the two generated copies of a type left alone but their hand-written users unified, dead parameters removed, boolean parameters replaced by two functions; plus the restructuring of control flow inside loops that decode, dispatch or walk tables (labelled break/continue, loop bodies moved to a method, a `for {}` with explicit exit instead of a condition, range over an index copy). Spread the four changes over different files including at least one helper package (type/basic, type/value, meta/signature, bus/util, bus/net) and one user of the central code. Make each change touch 20-60 lines' if rnd == "6" else ""))))
print(f"""You are helping test a verification effort on an open-source Go project, lugu/qiloop (a Go implementation of SoftBank's QiMessaging RPC protocol: wire format, type-signature codec, IDL parser and proxy/stub generator, client/server bus, service directory).

Your own scratch git worktree of the project is at {wt} (detached HEAD of the project's current commit). Work ONLY inside {wt} and write your results to {out}/. Do NOT read or touch /repo, /verif, /root/.vp or other directories under /tmp/wt, /tmp/mut or /tmp/ben: your work must be independent.

Here is a semantic property the project satisfies:

  Title: {p['title']}
  Statement: {p['statement']}
  Quantified over: {p['quantifier']['text']}

Task: produce FOUR different, independent, BEHAVIOUR-PRESERVING source changes to the project (non-test .go files only) in the code that implements this property — the kind of clean-up, refactoring or harmless improvement a maintainer routinely commits. The property must STILL HOLD after each change, for every input, schedule and history (not just the tested ones): be careful and conservative, do not introduce any semantic difference that could matter to the property. Find the relevant code first (read it), then make changes such as:
  - renaming local variables, parameters, unexported functions, unexported struct fields or types;
  - extracting a block into a helper function or method, or inlining a small helper;
  - reordering independent statements; splitting or merging conditions; replacing an if/else-if chain by a switch (or the reverse); inverting a condition and swapping branches; early-return style vs nested style;
  - replacing an index loop by a range loop (or the reverse) when equivalent;
  - changing error message texts, adding comments or log lines, adding an unused-by-others helper;
  - moving a function to another file of the same package;
  - replacing `x.mu.Lock(); ...; x.mu.Unlock()` by `x.mu.Lock(); defer x.mu.Unlock()` (or the reverse) when equivalent;
  - introducing a named constant for a literal, or a small named type for clarity.
Make each of the four changes non-trivial (touching 10-40 lines is fine) and of a different nature; prefer the functions most central to the property{extra}. Each must compile (`go build ./...`) and pass the existing suite unchanged: `cd {wt} && GOPROXY=off GOSUMDB=off GOTOOLCHAIN=local go test -vet=off -count=1 -p 4 ./...` (one test, examples/clock TestSynchronizedTimestamp, is timing-sensitive and may flake under load; re-run it alone if it fails).

For each change N in 1..4 write into {out}/rN/ :
  - patch.diff : output of `git diff` in the worktree with ONLY that change applied (must apply to a clean checkout with `git apply`);
  - README.md : what was changed, and a short argument why behaviour (and the property) is preserved.
Leave the worktree clean (`git checkout -- . && git clean -fd`) when done. Do not commit. Do not modify tests. Do not edit generated files (*_gen.go) unless you regenerate nothing — simply avoid them. There is no network. Other agents are running on this machine: use at most 4 cores.

When finished, reply with a short summary of the four changes (file/function, nature of the refactor).""")
