# Claims table, exec'd by mkmanifest.py.  claim(id, technique, text, note, design_ref) / na(id, reason)

claim("C19",
  "SSA lockset analysis (pairing, guarded-by) + guarded reachability",
  "Decides from the source, on every path of Session.client and the other session/client functions, that mutexes are released in the mode they were taken, that the connection pool, service list, subscription counts and message-id counter are only touched under their mutex (writes exclusively), and that a pool insert is guarded by a failed re-check under the same continuously held write lock with the duplicate connection closed. These are necessary conditions of 'no crash, at most one connection per endpoint'; they hold for every schedule because they hold on every path.",
  "Does not decide that every request succeeds nor any property of particular interleavings; locks are identified by (struct type, field); sync and net semantics trusted.",
  "DESIGN.md §3 C19")

_pending = "check not implemented yet in this revision of /verif (design in DESIGN.md §3); not claimed until its rules exist and are validated"
for pid in ["C01","C02","C03","C04","C06","C07","C08","C09","C10","C11","C12","C13","C14","C15","C16","C17","C18","C20"]:
    if pid not in CLAIMED:
        na(pid, _pending)

na("C05", "quantifies over all IDL programs and over the output of running the generator and the Go compiler; analysing /repo's source says nothing about text the generator will emit for an unseen IDL, and running the generator is execution (another family). See DESIGN.md §3 C05.")
