# Claims table, exec'd by mkmanifest.py.  claim(id, technique, text, note, design_ref) / na(id, reason)

claim("C19",
  "SSA lockset analysis (pairing, guarded-by) + guarded reachability",
  "Decides from the source, on every path of Session.client and the other session/client functions, that mutexes are released in the mode they were taken, that the connection pool, service list, subscription counts and message-id counter are only touched under their mutex (writes exclusively), and that a pool insert is guarded by a failed re-check under the same continuously held write lock with the duplicate connection closed. These are necessary conditions of 'no crash, at most one connection per endpoint'; they hold for every schedule because they hold on every path.",
  "Does not decide that every request succeeds nor any property of particular interleavings; locks are identified by (struct type, field); sync and net semantics trusted.",
  "DESIGN.md §3 C19")


claim("C04",
  "guarded reachability over SSA (type guard, reply filter, post guard), argument-agreement tables, escape/call-site confinement, lockset",
  "Decides from the source that only Call/Post can reach an implementation method (type guard in the generic stub + raw stubs never escape + stub methods only called from their Receive), that the reply filter compares service/object/action/id and is single-shot and registered before the send, that ids are advanced under a mutex, that error/reply headers carry the request's address and id in the right positions, that no reply follows a Post once the method ran and no Channel implementation answers an error to anything but a Call, and that the messages of one object (service-side mailbox, client-side object queue) are handed to it one at a time by one goroutine. Necessary conditions of exactly-one-own-answer; they hold on every path, hence for every schedule. The shutdown rule of C11 (stream closed before the handler mutex is taken and every handler closed) is part of this check: a call registering during shutdown gets its one outcome from the sweep or from a failing send. One stream write per message (C10.single-write, shared): a request or an answer cannot be split by another caller's bytes.",
  "Does not decide exactly-once execution or own-result under interleavings (runtime); mailbox FIFO and net semantics trusted. D9 and D12 were repaired in /repo (fixed: lines in known_findings.txt).",
  "DESIGN.md §3 C04")

claim("C06",
  "guarded reachability over SSA + who-may-call / who-may-write closed lists + use-set (taint-style) of the client map",
  "All clauses of the property are structural and are decided: the gate dominates routing on the same message and channel and refusal sends an error and closes; firewall's nil only across authenticated-or-service-0 regardless of type; closed, individually guarded list of SetAuthenticated callers and state-key writers; the client-supplied map is only looked up for user/token and never iterated, stored, merged or returned; the per-connection map is a fresh DefaultCap(). The authentication state kept in a channel's capability map is read and written with a mutex of the channel held (D25, fixed).",
  "Authenticator implementations and TLS are trusted; locks/maps identified by type+field.",
  "DESIGN.md §3 C06")

claim("C10",
  "ownership (who touches the stream / who calls raw Read-Write) + must-pass-once path rules over SSA + lockset",
  "Decides that Message.Write hands its writer to exactly one WriteN call with the bytes of a private buffer filled header-then-payload, refuses size mismatch, that the endpoint's stream is only used by Send→Message.Write, process→Message.Read, Close and String, that WriteN hands the whole remaining buffer to each Write, that process dispatches synchronously between reads (directly or through a receive helper of its own), that a handler slot is found and filled in one critical section, and that enqueueing is non-blocking, under the handler mutex, only on the matching filter and offered to every handler. The goroutine draining an AddHandler queue does not select between the queue and another channel (accepted messages are not abandoned).  Message.Read takes exactly the announced bytes off the stream with the exact reader into storage of its own (C01.exact-reads, shared).",
  "Atomicity of one Write on each transport and per-sender ordering under all schedules are not decided.",
  "DESIGN.md §3 C10")

claim("C11",
  "guarded reachability / must-pass path rules over SSA, channel-capacity and select-shape checks",
  "Decides that every read error leads to closeWith(err) and leaves the loop, that shutdown closes the stream and every registered handler with the error, that the reply handler is registered before the send and removed on send failure, that every queue whose filter can match is buffered (dispatch never blocks), that client.Call waits on error channel, reply queue (closed ⇒ error) and cancel together, and that subscription channels are closed exactly once per goroutine exit. The stream must be closed before the handler mutex is taken (a call registering after the sweep then fails on its send); every handler has a queue of its own (C17.queue-owner, shared). The subscription's handler is removed only by its forwarding goroutine on the abort path; a transport error ends the read loop (C08.error-flow on bus/net, shared). ReadN does not call Read again after an error that came together with data (C08.readn, shared).",
  "'Bounded time', exactly-once firing under races and every fault position of every I/O call are runtime properties and not decided.",
  "DESIGN.md §3 C11")

claim("C12",
  "call-graph reachability (CHA/VTA) from callbacks run under the endpoint lock + error-flow in generated stubs + guarded reachability",
  "Decides that closers/filters (which run under handlersMutex) cannot re-acquire it or block, that dispatch never blocks and answers a full-queue Call with an Error, that every argument-decoding error in a generated stub becomes SendError without calling the method, that unknown service/object/action are answered, that removal entry points delete exactly the id named, and that no explicit panic is reachable from a Receive implementation. Nothing called with a mutex of bus/** held comes back, through the call graph (callbacks by type flow), to an acquisition of a mutex of that class (C12.locks reentrant-through); a wire integer indexes or slices only behind a comparison with the length indexed (C07.wire-index). No struct holding a mutex is copied; an error value built in bus/** is returned, sent, logged or stored, never dropped (C12.errors-reported). Bounded service (C12.bounded-service, over the VTA call graph from the goroutine that serves an object): every stream write reachable from it is preceded by a write deadline and nothing on its path sleeps. KNOWN FINDING D26: endPoint.Send writes replies with no deadline — a client that stops reading stops the object for everyone (reproduced, findings/D26).",
  "Liveness under floods beyond the two waits named (write without deadline, sleep), implicit panics and C07's unbounded allocations are not decided. D10 (self-deadlock through signal/disconnect closers) was found by this rule, repaired in /repo (63a82dd) and is recorded as fixed in known_findings.txt.",
  "DESIGN.md §3 C12")

claim("C13",
  "guarded reachability over SSA (filters, selection, reference counts), lockset guarded-by, goroutine/close shape checks",
  "Decides that events are selected by equality of service/object/action (client) and signal id (server), that the registration table is mutex-protected with removal restricted to the caller's own entry and duplicate ids refused, that remote register/unregister happen exactly on the 0↔1 transitions of the local count under one key, and that each subscription has one sequential forwarding goroutine closing the channel once per exit (client.Subscribe and every generated Subscribe*). No entry of the registration table is read through a pointer taken before another entry was written over it (stale element pointer).",
  "Exactly-once/in-order delivery across subscribe–emit–unsubscribe interleavings is not decided.",
  "DESIGN.md §3 C13")

claim("C14",
  "guarded reachability and must-pass-once path rules over SSA, lockset guarded-by, error-flow in generated property code",
  "Decides validate→save→notify (save and event only across a nil verdict, once each, save first, same bytes) in both the client-write and service-write paths, that the property table is mutex-protected and Property returns what saveProperty stored, that generated onPropertyChange never calls the validator on undecodable bytes and generated getters compare the signature before decoding. The signal table rules of C13 (duplicate ids refused, own entry removed, no lock copies) are part of this check.",
  "Linearizability of concurrent get/set histories is not decided.",
  "DESIGN.md §3 C14")

claim("C15",
  "lockset guarded-by + guarded reachability and must-pass path rules over SSA",
  "Decides that the registry state is only touched under its mutex on both the mailbox and the direct path, that ids only increase and the id handed out is read after the increment, that a name present in staging or services refuses registration before the insert, that services[id] is only filled from staging[id] (deleted) or by a name/id-preserving guarded update, that lookup/list never read staging, and that added/removed are emitted exactly once per transition with the entry's id and name and nowhere else. Once the table has been changed a registry operation reports success on every path (committed means success).",
  "Linearizability and sequential conformance to a reference model are runtime properties and not decided.",
  "DESIGN.md §3 C15")

claim("C16",
  "lockset (pairing, guarded-by) + table-agreement within critical sections + guarded reachability over SSA",
  "Decides that object and mailbox tables change together under the same key in one critical section, that Remove deletes a found entry under the exclusive lock and runs OnTerminate exactly once on it outside the lock, that unknown ids are errors, that Add stores only under an id whose lookup failed, and that OnTerminate tells every remaining subscriber. The identifier under which Add stores is behind a failed lookup of that very identifier (D23, fixed); no blocking channel operation under the service lock (C12.locks, shared). The error of Activate reaches the caller of Add and the object is installed only where it is nil (C16.activation). A client-side object's handler is removed only by clientService.Remove, which looks the entry up and deletes it in one exclusive critical section before the handler is removed (C16.client-remove).",
  "Behaviour under concurrent add/remove/terminate histories is not decided. D18 (Add on a session-less service created no mailbox) was first a known finding and is fixed in /repo (d8d70b8).",
  "DESIGN.md §3 C16")

claim("C17",
  "ownership/typestate invariants: who closes / sends / fills slots (closed lists), lockset, guarded reachability, call-graph re-entrancy",
  "Decides seven invariants that together imply at-most-once close after the callback on every path and for every interleaving (all table accesses are under one mutex): single closer site after the callback; closeWith only on non-nil slots under the mutex with the slot cleared before release; slots filled only by MakeHandler with a fresh handler into a nil slot; the only send is dispatch's non-blocking one under the mutex; private queues per registration; RemoveHandler errors for unknown/removed ids; callbacks do not re-enter the mutex.",
  "Handlers registered while shutdown runs and general deadlock freedom are not decided. D10 (closers run under the handler lock by RemoveHandler) was found by this rule, repaired in /repo (63a82dd) and is recorded as fixed in known_findings.txt.",
  "DESIGN.md §3 C17")


claim("C07",
  "wire-integer taint analysis over SSA with guarded-reachability sanitisers + recursive minimum-consumption summaries + call-graph panic reachability",
  "Decides the clause visible in the code's shape: no allocation size or loop bound comes from an integer read off the wire without a constant (or existing-capacity) upper bound, and none that went through a signed type reaches a panicking sink without a lower bound; loops bounded by a wire count must consume at least one byte per iteration (callee summaries computed from ReadN constant lengths). Plus: no explicit panic reachable from a decoder, checked arities of parallel slices in the signature node builders, unchecked assertions confined to confirmed sites. Also: a wire integer indexes or slices only behind a comparison with the length of what is indexed (C07.wire-index); no package-level map is written at run time without a lock and no shared map under a read lock only (C07.shared-state). Zero-count rules are exercised on every run by positive and negative examples overlaid on the repository (DESIGN §8a). The IDL parser's type references refuse recursion (C18.recursion, shared; D24, fixed).",
  "Absence of implicit panics and hangs in general, and time/memory proportional to input, are not decided (need execution). The rule is interprocedural for allocation parameters and also decides that no two alternatives of an ordered choice of the signature / IDL grammars share a prefix with a non-terminal (exponential backtracking: D20, fixed). D8 (generated decoders allocated from the wire count, 16 sites) was first a known finding and is fixed in /repo (6a14ca9).",
  "DESIGN.md §3 C07")

claim("C08",
  "SSA error-flow over the computed decoder set + ownership of the reader (closed list of consumers) + ReadN completeness by guarded reachability",
  "Decides (a) ReadN returns nil only when length bytes arrived, accumulates exactly what Read returned, and every ReadN call passes the length of the buffer it fills; (b) for every decoder call inside the decoder set (computed by reader-argument flow from ReadN) the error is used and every path on which it may be non-nil returns a non-nil error derived from it; (c) readers are consumed only through the repository's decoders (no type-asserted fast paths, io.Copy/LimitReader/bufio). Together: a strict prefix makes some ReadN fall short and that shortfall reaches the caller. (d) decoding steps outside the decoder set — stub methods, proxies, handlers that build a reader over bytes they were given, functions handed a reader that have no error result — look at the error of every step (C08.roots); a wrapper built around a handed-in reader keeps the function inside the decoder set. The reflection encoder and decoder branch on the same reflect kinds (C08.kind-sets: the decoder's switch skips an unknown kind without consuming and without an error); ReadN does not read again after an error.",
  "Exact consumption of valid encodings is taken from the shape rules of C01–C03; io.Reader contract trusted.",
  "DESIGN.md §3 C08")


claim("C01",
  "wire-shape extraction over SSA and comparison with the documentation + guarded reachability + ownership of the stream",
  "Decides the layout and refusal clauses from the source: shape(Header.Write) = shape(Header.Read) = struct header_t of the documentation (order, widths, 28 bytes), magic big-endian and every primitive little-endian with the width of its Go type (derived from the primitive bodies); nil from Header.Read only across valid magic/version/type; payload allocation and read only behind a validated header and Size <= MaxPayloadSize; exactly two exact reads on the stream, payload always assigned; ReadN/WriteN retry loops complete and accept data arriving with EOF; one buffered write per message. Nobody but ReadN pulls header or payload off the stream (C08.readn-calls, shared); a length compared with a limit through a local variable or a parameter is followed to the limit it names. ReadN/WriteN reach the next Read/Write only across err == nil. The payload Message.Read stores is storage of that read alone (never a re-slice of the receiver's previous payload, a package-level buffer or a pool).",
  "Value-level round trip for all field values, lengths and fragmentations is not decided; encoding/binary trusted.",
  "DESIGN.md §3 C01")

claim("C02",
  "dispatch-table agreement (AST constants + SSA return types) + wire-shape comparison writer/reader + consumed-equals-returned on TypeReaders with value identity",
  "Decides that every value type's constant signature has a row in NewValue's table whose constructor returns that type, that each Write emits signature + exactly the shape its constructor reads, that every signature-driven reader re-emits each value it read with the dual primitive, in order, into a buffer created by that call, that opaque values store what the reader returned, and that size limits are inclusive on every side. The value decoders and signature readers consume their source only through the repository's decoders (no read-ahead wrapper, no probe of the concrete source: C02.reader-discipline). meta/signature and type/value fill no package-level table outside their initialisers (a reader memo keyed by wire text hands one type's reader to another).",
  "Equality of decoded values for all inputs and depths is not decided; bytes.Buffer trusted.",
  "DESIGN.md §3 C02")

claim("C03",
  "table agreement across four independently maintained codec descriptions + wire-shape comparison of every reader/writer pair",
  "Decides that type/basic primitives, signature constructors (letter, IDL, reader width, Go type, template primitives), the reflection encoder/decoder kind switches, the Encode/Decode type switches and the documentation agree row by row; that slice/map are a 32-bit count plus that many elements (key before value) on every side with fresh storage per decoded element; and that all checked-in readX/writeX pairs have identical field-by-field wire shapes. Every generated writer writes the fields of its struct in declaration order, the order the reflection codec walks (C03.pairs field-order). meta/signature and type/value keep no package-level table; a table kept by the reflection codecs is keyed by the reflect.Type itself, never by Type.String()/Name()/Kind().",
  "The generator is analysed under C05 (emitted operations), here only its scalar rows and its checked-in output; value equality is not decided.",
  "DESIGN.md §3 C03")

claim("C09",
  "table agreement between grammar atoms, switch cases, constructor rows and printer tokens (AST constants) + guarded reachability on Parse",
  "Decides that every grammar letter has a case whose constructor prints that letter, that each composite printer emits exactly the atoms of its grammar production (and the struct-name patterns accept the same identifiers inside and outside the template brackets), that Parse succeeds only at end of input with one type and keeps no state, and that node builders cannot panic on error nodes (unchecked assertions only on terminals, parallel slices length-checked). The Go representation of a struct or tuple names every field after the member's name (C09.go-fields). meta/signature fills no package-level table outside its initialiser; a member list the parser produced is not cut down before the type is built from it.",
  "Grammar-wide identity, rejection of every other string and goparsec internals are not decided.",
  "DESIGN.md §3 C09")

claim("C18",
  "table agreement between IDL printers and IDL grammar (AST constants) + component-registration and assertion checks over SSA",
  "Decides that every IDL type name printed is parsed back by the same constructor, that composite and line-level tokens printed are atoms of the parser, that the uid is read back as printed into a uint32, that composite types register all their components, and that IDL node builders assert unchecked only to terminals. The IDL parser's entry points use no package-level variable that changes after initialisation (C18.stateless); no address of a loop variable shared by all iterations is kept beyond its iteration (C18.loop-variables). A type reference hands a question on to the type it designates only while marked as being visited and refuses to resolve while marked (C18.recursion; D24, fixed). A declaration parsed is registered in the scope on every successful path of its parser, not on one branch of several. Declared type names are compared as stored; every non-atom position of a composite type production is held by the recursive type parser. Every signature the IDL printer parses in a function holding the type set is registered in that set on every successful path; the exception for nodifyPackage's unchecked assertion covers the string assertion only.",
  "Identity on all meta-objects and parser totality on arbitrary text are not decided. Declared names (struct, field, action) are printed as stored. D14 (void printed as 'nothing') was repaired in /repo.",
  "DESIGN.md §3 C18")

claim("C20",
  "def-use / must-pass rules on reflect values + guarded reachability on kind tests (SSA)",
  "Decides that fresh reflect values are populated by convertFrom before being stored, per loop iteration, key and value from the same source entry; that every scalar setter is behind a same-family kind test and stores the source's own accessor value (AsInt64 exact); that composite converters touch the destination only after testing the source kind; that slices are converted index by index over the whole source and struct fields paired by name; and that element failures propagate. The integer extraction helper refuses by kind only: no refusal once Value.Int / Value.Uint was read. A table kept by the conversion package is keyed by the reflect.Types concerned, not by a rendering of them.",
  "Value equality for all inputs and widening/narrowing semantics are not decided; reflect trusted.",
  "DESIGN.md §3 C20")

_pending = "check not implemented yet in this revision of /verif (design in DESIGN.md §3); not claimed until its rules exist and are validated"
for pid in ["C01","C02","C03","C04","C06","C07","C08","C09","C10","C11","C12","C13","C14","C15","C16","C17","C18","C20"]:
    if pid not in CLAIMED:
        na(pid, _pending)

claim("C05",
  "emitted-operation extraction over the code generator's syntax tree (jen call chains, string fragments, Type.Marshal/Unmarshal calls, loops over Members/Params) and dual comparison of the write and read sides + per-iteration completeness on SSA",
  "Decides, on the generator itself (meta/signature, meta/stub, meta/idl), the structural clauses without which the generated halves cannot be inverses for any IDL: every scalar constructor names the Write and Read primitive of its own letter; for list, map, tuple, struct and enum the operations emitted by Marshal are the dual of those emitted by Unmarshal (same primitives, same members in the same order, same Go expression on both sides, generated loops in the same places behind a 32-bit count, struct read/write functions declared under the names the call sites use and covering every member); every emitter that encodes or decodes a parameter list handles each declared parameter exactly once per iteration with the parameter's own type (stub method, signal and property bodies, proxy bodies); the stub encodes the result after decoding the parameters. The reflection codec the generated proxy uses is held to the composite/kind rules of C03 (fresh storage per decoded element, every kind through its own primitive). Inside an emitted loop the element handed to the member's emitter is not named through the container parameter and the emitted index (nested containers re-declare it). Two clauses of 'the output compiles' that are decidable on the generator are also decided: a generator mode flag read by an emitter is lowered again before the declarations shared by both halves are rendered (C05.mode-flag), and method, signal and property names of one interface are made unique within one set (C05.name-space). The emitted subscription goroutine leaves its loop early only on a closed payload channel (!ok) and on a decoding error (emitted statements read off jen calls and parsed raw fragments).",
  "NOT decided: that the generated text compiles for every IDL (identifier hygiene, imports, name collisions, well-formedness of the string fragments), that a signal's tuple type on the subscriber side is the tuple of the emitter's parameters, equality of values end to end. The generator is never run; only its source is analysed, so a check of the generated output for an unseen IDL is out of reach of this technique.",
  "DESIGN.md §3 C05")
