#!/usr/bin/env python3
"""Regenerates /verif/MANIFEST.json from the table below (kept in one place so
that the manifest is always valid and consistent with what qicheck registers)."""
import json, os, subprocess, sys

HERE = os.path.dirname(os.path.dirname(os.path.abspath(__file__)))
BUILD = ("cd /verif/checker && env -u GOWORK GOFLAGS=-mod=mod GOPROXY=off GOSUMDB=off GOTOOLCHAIN=local "
         "go build -o /verif/bin/qicheck ./cmd/qicheck")

# id -> (technique, level text, level note, design ref)
CLAIMED = {}
NOT_APPLICABLE = {}

def claim(pid, technique, text, note, ref):
    CLAIMED[pid] = (technique, text, note, ref)

def na(pid, reason):
    NOT_APPLICABLE[pid] = reason

exec(open(os.path.join(HERE, "tools", "claims.py")).read())

checks = []
for pid in sorted(CLAIMED):
    technique, text, note, ref = CLAIMED[pid]
    checks.append({
        "property_id": pid,
        "quick_cmd": f"/verif/bin/qicheck -property {pid} -tier quick",
        "thorough_cmd": f"/verif/bin/qicheck -property {pid} -tier thorough",
        "evidence_file": f"/verif/evidence/{pid}.json",
        "replay_cmd_template": "/verif/bin/qicheck -explain {path}",
        "engine": "qicheck",
        "level_claimed": {"category": "other", "text": text, "design_ref": ref},
        "level_note": note,
        "technique": technique,
    })

manifest = {
    "version": 1,
    "setup_cmd": BUILD,
    "hooks": {
        "guard": "verif",
        "enable": "none needed: static analysis reads /repo's source; no hook or instrumentation exists",
        "baseline_off_cmd": "cd /repo && go test -vet=off -count=1 ./...",
        "source_commits": [],
        "add_only": True,
    },
    "engines": [{
        "name": "qicheck",
        "path": "/verif/checker",
        "serves_properties": sorted(CLAIMED),
        "kind_free_text": "repository-specific static analyser (go/packages + go/types + go/ssa + CHA/VTA call graphs, x/tools v0.29.0): guarded reachability, lockset, error-flow, ownership, table-agreement, wire-shape and taint rules",
    }],
    "checks": checks,
    "not_applicable": [{"property_id": p, "reason": r} for p, r in sorted(NOT_APPLICABLE.items())],
    "notes": "All claims are level 'other': static discharge of enumerated structural obligations that are necessary conditions of the property (DESIGN.md §3 lists, per property, what is decided and what is not). Tiers: quick analyses the default build configuration; thorough runs the same rules over every build configuration the repository compiles for (default, linux/386 where int is 32 bits, darwin/arm64) and merges the obligations, keeping the worst verdict per construct. Known findings: /verif/known_findings.txt.",
}
json.dump(manifest, open(os.path.join(HERE, "MANIFEST.json"), "w"), indent=1)
print("MANIFEST.json:", len(checks), "checks,", len(NOT_APPLICABLE), "not applicable")
