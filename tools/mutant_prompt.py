#!/usr/bin/env python3
"""Prints the prompt given to an independent sub-agent that seeds a property-breaking change.
The agent sees only the property text and its own scratch worktree (nothing from /verif)."""
import json, sys
pid = sys.argv[1]
rnd = sys.argv[2] if len(sys.argv) > 2 else '1'
round2 = rnd == '2'
round3 = rnd == '3'
round4 = rnd == '4'
round5 = rnd == '5'
wt = f'/tmp/wt/{pid}' + {'1': '', '2': 'b', '3': 'c', '4': 'd', '5': 'e'}[rnd]
out = {'1': f'/tmp/mut/{pid}', '2': f'/tmp/mut2/{pid}', '3': f'/tmp/mut3/{pid}', '4': f'/tmp/mut4/{pid}', '5': f'/tmp/mut5/{pid}'}[rnd]
for l in open('/verif/properties.jsonl'):
    p = json.loads(l)
    if p['id'] == pid:
        break
else:
    sys.exit("no such property")
extra = (" Stay away from the single most obvious line for this property: look at helper functions, less-travelled branches and error paths, the secondary implementations of the same behaviour (generated code checked into the repository, the reflection-based codec, client side versus server side, signature-driven readers), state that two functions must keep consistent, and clean-up / shutdown paths. At least one of the three should involve code that is NOT in the file a reader would open first for this property." if round2 else (" For this round, prefer changes of these kinds: (1) a change that is correct on its own but breaks an assumption another function relies on (state that two functions must keep consistent, a value computed in one place and checked in another); (2) a change in a clean-up, shutdown, error or retry path; (3) a change in a secondary implementation of the same behaviour (code generated and checked into the repository, the reflection-based codec, the client side when the server side is the obvious place, a helper package). Avoid one-token operator flips in the central function of the property: make the three changes look like refactorings, optimisations or hardening that a reviewer would approve." if round3 else (" For this round, prefer changes that ADD something rather than alter what is there: a fast path, a cache or memo, an early return for a 'trivial' case, a retry, an extra goroutine or buffered hand-off, a pooled or reused buffer, a fallback branch, a new default in a constructor, a second call site of an internal function that skips what the first call site does before it — so that the existing code is untouched and still looks right, but can now be bypassed or run in a state it was not written for. Also consider changes made by following the data flow of the property away from its central function: callers, adapters, constructors and their defaults, constants and limits, files checked in that were produced by the project's generators (edit the generated .go file directly), and the less-used transports / codecs / front ends. Make each change look like an optimisation, a robustness improvement or a convenience a reviewer would approve." if round4 else (" For this round, prefer changes of these kinds: (1) TWO COOPERATING SITES: a change made of two small edits in different functions (or files) that each look fine alone — e.g. one function stops establishing something (a check, a copy, a lock, an ordering, an initial value) because 'the other side does it', and the other side is changed or already differs; (2) REORDERING: moving an existing statement across a lock/unlock, a goroutine start, a channel operation, a registration, a write to the wire or an error check, without adding or deleting anything; (3) ALIASING AND LIFETIME: handing out, storing or reusing a slice, map, buffer, message or pointer that is still owned or later modified by someone else (no copy where one is needed, a copy where identity is needed, a value captured by a closure or goroutine that changes afterwards); (4) BOUNDARIES AND WIDTHS: a limit, count, index or identifier that goes wrong only at an extreme (zero, exactly the limit, wrap-around of a counter, the 2^31/2^32 edge, an empty list or map, the first or last slot). Avoid one-token operator flips in the central function of the property and avoid plainly deleting a check; every change must leave the code looking like a reasonable clean-up, simplification or performance improvement that a reviewer would approve." if round5 else ""))))
print(f"""You are helping test a verification effort on an open-source Go project, lugu/qiloop (a Go implementation of SoftBank's QiMessaging RPC protocol: wire format, type-signature codec, IDL parser and proxy/stub generator, client/server bus, service directory).

Your own scratch git worktree of the project is at {wt} (detached HEAD of the project's current commit). Work ONLY inside {wt} and write your results to {out}/. Do NOT read or touch /repo, /verif, /root/.vp or other directories under /tmp/wt or /tmp/mut: your work must be independent.

Here is a semantic property the project is supposed to satisfy:

  Title: {p['title']}
  Statement: {p['statement']}
  Quantified over: {p['quantifier']['text']}

Task: produce THREE different, independent source changes ("mutants") to the project (non-test .go files only) that each BREAK this property while
  (a) the project still compiles (`go build ./...`), and
  (b) the project's existing test suite still passes unchanged: `cd {wt} && go test -vet=off -count=1 ./...` (run it at least twice; some tests use timing).
Each mutant should be REALISTIC (the kind of slip or well-meant "simplification"/"optimisation"/refactor a maintainer could commit) and SUBTLE: it must need something specific to manifest — a particular interleaving, a fault or close at a particular point, a multi-step sequence of operations, an unusual input (boundary size, rarely used type, hostile length field), or two cooperating sites that each look fine alone — NOT something ordinary use would expose at once. The three mutants should break the property through different mechanisms / different code locations (read the relevant code first and pick distinct places).{extra} Keep each change small (a few lines).

For each mutant N in 1..3 write into {out}/mN/ :
  - patch.diff  : output of `git diff` in the worktree with ONLY that mutant applied (it must apply to a clean checkout with `git apply`);
  - a demonstration: either demo_test.go (a Go test file; say in README which package directory it must be copied into, use a test name starting with TestSeeded) or demo/main.go (a small program), which FAILS (test failure / non-zero exit / panic / detected deadlock via timeout) with the mutant applied and PASSES on the unmodified worktree. The demonstration must be deterministic or nearly so (if it depends on scheduling, loop enough or force the interleaving), finish within 60 s, and use only the standard library and the project's own packages (no network access is available; in-memory pipes or unix sockets under /tmp are fine);
  - README.md : which clause of the property breaks and how, what it needs in order to manifest, the exact commands you ran, and their observed results (existing suite passes with the mutant; demo passes without and fails with it).
Verify all of that yourself before finishing: apply → build → full suite (twice) → demo fails; `git checkout -- . && git clean -fd` → demo passes. Leave the worktree clean (no mutant applied, no stray files) when you are done.

Environment notes: there is no network. Use the default `go` (1.23). Run go commands with the environment `GOPROXY=off GOSUMDB=off GOTOOLCHAIN=local` and do not pass -mod=mod (e.g. `cd {wt} && GOPROXY=off GOSUMDB=off GOTOOLCHAIN=local go test -vet=off -count=1 ./...`); if go.mod gets modified, restore it with `git checkout go.mod go.sum`. The full suite takes about 10 s. Do not commit anything, do not use `git stash` (stash entries are shared between worktrees), and do not use `pkill`/`killall` on patterns that could match other users' processes. Do not modify or delete existing tests. Other agents are running on this machine, so avoid using more than 4 cores at a time (`-p 4`).

When finished, reply with a short summary: for each mutant, the file/function changed, the mechanism, and whether you verified (suite passes, demo fails with / passes without).""")
